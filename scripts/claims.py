# Claim table used by mkmanifest.py.  text = what the check assures; note = what is assumed / trusted.
CLAIMS['C02'] = dict(
 text="Proof (function by function, all inputs): every non-error return of the verifying readers is dominated by the hash-equality test on the very (cid, data) values that are returned, and io.EOF is returned by the section readers only when zero bytes of the current section were consumed (one zero byte under ZeroLengthSectionAsEOF).",
 note="Assumed contracts: go-varint ReadUvarint, go-cid CidFromReader/CidFromBytes/Prefix/Sum, io.ReadFull/LimitReader/CopyN/Seek, go-block-format. Hash functions are uninterpreted. Corruption that keeps the hash equal is outside the claim.")
CLAIMS['C14'] = dict(
 text="Proof: the representation invariant 'br.offset == absolute source offset of the next unread byte' is preserved by Next and SkipNext on the seek and the slurp path, metadata postconditions (SourceOffset, Offset, Size, Cid) are exact, and for CARv2 all reads go through a LimitedReader pinned to DataOffset+DataSize.",
 note="Assumed contracts: io.LimitReader / Seeker / CopyN, go-cid, go-varint; input assumption canonical_header where the first section is located by re-encoding the header; the source is positioned at its origin when the reader is constructed.")
NA['C17'] = "containment is decided by kernel path resolution over a file system the extraction itself mutates; no function contract ranges over that state (DESIGN.md §6)"
NA['C18'] = "the round trip is carried by go-unixfsnode's builder/reifier (dependencies) and by directory trees on disk; nothing in reach of a contract on go-car code (DESIGN.md §6)"
NA['C19'] = "quantifies over CLI processes (flag parsing, files, exit status, closure of one process's output under another); no function contract ranges over that (DESIGN.md §6)"
CLAIMS['C03'] = dict(
 text="Proof of the offset bookkeeping of index generation for every input: each record carries the payload-relative offset of its section's length prefix and the CID read there, identity CIDs are recorded iff StoreIdentityCIDs, over-long CIDs are rejected; the offset-tracking wrapper used for plain readers keeps 'tracked offset == stream position' (object invariant proved for its methods and required at every use), so plain and seekable sources yield the same offsets.",
 note="Assumed: go-varint, go-cid, io.Seeker/Reader contracts, cbor canonical_header. Bucket search (sort.Search + forward scan) and GoLLRB are assumed/untreated here; the source is at its origin when indexing starts.")
