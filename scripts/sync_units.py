#!/usr/bin/env python3
"""Adds to checks/Cxx.json every function (or function literal) that carries a clause tagged [Cxx] but is not yet a
unit of that check (see audit_tags.py).  Run `scripts/all.sh expect` afterwards."""
import subprocess, json, re
out = subprocess.run(['python3', '/verif/scripts/audit_tags.py'], capture_output=True, text=True).stdout.splitlines()
add = {}
for l in out:
    m = re.match(r'(C\d\d) (.*?) \|', l)
    if not m:
        continue
    p, fn = m.group(1), m.group(2)
    full = fn.replace('(*/', '(*github.com/ipld/go-car/').replace('(/', '(github.com/ipld/go-car/').replace('(*.', '(*github.com/ipld/go-car.').replace('(.', '(github.com/ipld/go-car.')
    if full.startswith('/') or full.startswith('.'):
        full = 'github.com/ipld/go-car' + full
    add.setdefault(p, []).append(full)
for p, fs in sorted(add.items()):
    path = f'/verif/checks/{p}.json'
    c = json.load(open(path))
    have = {u['func'] for u in c['units']}
    n = 0
    for f in fs:
        if f not in have:
            c['units'].append({"mod": 'cmd' if 'go-car/cmd' in f else ('v2' if 'go-car/v2' in f else '.'), "func": f})
            n += 1
    json.dump(c, open(path, 'w'), indent=1)
    print(p, '+%d units' % n)
