#!/bin/sh
# usage: try_seed.sh <patch.diff> [property ids...]
# Applies a seeded breaking change to a scratch clone of /repo's HEAD (never to /repo itself: a
# snapshot of /repo taken while a seed was applied there once ended up committed, see DESIGN §7
# "D17"), runs the quick checks of the named (default: all claimed) properties against the clone
# (6 at a time), prints their VIOLATION lines, and removes the clone.
. /verif/scripts/env.sh
GCV=${GCV:-/verif/bin/gcv}
patch=$(readlink -f "$1"); shift
props="$*"
[ -z "$props" ] && props=$(python3 -c "import json;print(' '.join(c['property_id'] for c in json.load(open('/verif/MANIFEST.json'))['checks']))")
if [ -n "$(git -C /repo status --porcelain)" ]; then echo "REFUSING: /repo has uncommitted changes (commit the contract files first)"; exit 2; fi
tmp=$(mktemp -d "${TMPDIR:-/tmp}/try_seed.XXXXXX")
trap 'rm -rf "$tmp"' EXIT INT TERM HUP
git clone -q /repo "$tmp/repo" || exit 2
if ! git -C "$tmp/repo" apply --check "$patch" 2>/dev/null; then echo "PATCH DOES NOT APPLY: $patch"; exit 2; fi
git -C "$tmp/repo" apply "$patch"
export GCV_REPO=$tmp/repo
export GCV_EVIDENCE_DIR=$tmp/evidence
export GCV_REPLAY_OUT=$tmp/replays
mkdir -p $tmp/t; export TMPDIR=$tmp/t   # solver and replay scratch of the engine goes with the clone
echo $props | tr ' ' '\n' | xargs -P 6 -I{} sh -c "$GCV check --property {} > $tmp/{}.out 2>&1"
for p in $props; do
  grep -E "^VIOLATION|ERROR" $tmp/$p.out | cut -c1-260 | sed "s/^/[$p] /"
  tail -1 $tmp/$p.out | sed "s/^/[$p] /"
done
