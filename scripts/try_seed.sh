#!/bin/sh
# usage: try_seed.sh <patch.diff> [property ids...]
# Applies a seeded breaking change to /repo, runs the quick checks of the named (default: all claimed)
# properties, prints their VIOLATION lines, and restores /repo.
. /verif/scripts/env.sh
patch=$(readlink -f "$1"); shift
props="$*"
[ -z "$props" ] && props=$(python3 -c "import json;print(' '.join(c['property_id'] for c in json.load(open('/verif/MANIFEST.json'))['checks']))")
cd /repo || exit 2
if [ -n "$(git status --porcelain)" ]; then echo "REFUSING: /repo has uncommitted changes (commit the contract files first)"; exit 2; fi
if ! git apply --check "$patch" 2>/dev/null; then echo "PATCH DOES NOT APPLY: $patch"; exit 2; fi
git apply "$patch"
for p in $props; do
  out=$(/verif/bin/gcv check --property $p 2>&1)
  echo "$out" | grep -E "^VIOLATION|^KNOWN|ERROR" | cut -c1-260 | sed "s/^/[$p] /"
  echo "$out" | tail -1 | sed "s/^/[$p] /"
done
git -C /repo checkout -- . 
