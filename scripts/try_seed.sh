#!/bin/sh
# usage: try_seed.sh <patch.diff> [property ids...]
# Applies a seeded breaking change to /repo, runs the quick checks of the named (default: all claimed)
# properties (6 at a time), prints their VIOLATION lines, and restores /repo.
. /verif/scripts/env.sh
GCV=${GCV:-/verif/bin/gcv}
patch=$(readlink -f "$1"); shift
props="$*"
[ -z "$props" ] && props=$(python3 -c "import json;print(' '.join(c['property_id'] for c in json.load(open('/verif/MANIFEST.json'))['checks']))")
cd /repo || exit 2
if [ -n "$(git status --porcelain)" ]; then echo "REFUSING: /repo has uncommitted changes (commit the contract files first)"; exit 2; fi
if ! git apply --check "$patch" 2>/dev/null; then echo "PATCH DOES NOT APPLY: $patch"; exit 2; fi
git apply "$patch"
tmp=$(mktemp -d)
export GCV_EVIDENCE_DIR=$tmp/evidence
echo $props | tr ' ' '\n' | xargs -P 6 -I{} sh -c "$GCV check --property {} > $tmp/{}.out 2>&1"
for p in $props; do
  grep -E "^VIOLATION|ERROR" $tmp/$p.out | cut -c1-260 | sed "s/^/[$p] /"
  tail -1 $tmp/$p.out | sed "s/^/[$p] /"
done
rm -rf $tmp
git -C /repo checkout -- .
