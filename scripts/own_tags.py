#!/usr/bin/env python3
"""usage: own_tags.py <property> <obligation name>...   (or: own_tags.py -f <file of 'Cxx obligation' lines>)

Makes an obligation count for a further property: a seeded change that was shown (by its demo) to break
property Cxx but is noticed only by an obligation tagged for other properties means that obligation carries
Cxx as well.  For a named clause the tag Cxx is added to the clause in the contract file; for an untagged
obligation (errprop, typeinv, guard, frame, implements) the function becomes a unit of checks/Cxx.json; for a
generated safety obligation (bounds, alloc, div, panic) the unit additionally gets "safety": true.
Afterwards: git -C /repo add -u; scripts/sync_units.py; scripts/audit_tags.py; scripts/all.sh expect."""
import glob, json, re, subprocess, sys

BASE = 'github.com/ipld/go-car'

def full(fn):
    fn = re.sub(r'^(\(\*?)?v2([/.])', lambda m: (m.group(1) or '') + BASE + '/v2' + m.group(2), fn)
    fn = re.sub(r'^(\(\*?)?v1([/.])', lambda m: (m.group(1) or '') + BASE + m.group(2), fn)
    return fn

def parse(ob):
    fn, rest = ob.split('#', 1)
    kind, clause = 'untagged', None
    m = re.match(r'(?:post|check):([\w]+)', rest) or re.match(r'call\[[^\]]*\]\.assert:(\w+)', rest) \
        or re.match(r'loop\[\d+\]\.(?:inv|step):(\w+)', rest)
    if m:
        kind, clause = 'clause', m.group(1)
    elif re.match(r'(bounds|alloc|div|panic|nil|assert)\[', rest):
        kind = 'safety'
    return full(fn), kind, clause

def contract_files():
    out = subprocess.run(['git', '-C', '/repo', 'ls-files'], capture_output=True, text=True).stdout.split()
    return ['/repo/' + f for f in out if f.endswith('zz_contracts_verif.go')]

def modpath(f):
    rel = f[len('/repo/'):]
    d = rel.rsplit('/', 1)[0] if '/' in rel else ''
    return BASE + ('/' + d if d else '')

def add_tag(fn, clause, prop):
    """returns 'added' | 'present' | 'untagged-clause' | 'notfound'"""
    res = 'notfound'
    for f in contract_files():
        pkg = modpath(f)
        lines = open(f).read().split('\n')
        stack = []
        changed = False
        for i, ln in enumerate(lines):
            t = ln.strip()
            if not t.startswith('//@'):
                continue
            t = t[3:].strip()
            m = re.match(r'func\s+(.*)$', t)
            if m:
                name = m.group(1).strip()
                mm = re.match(r'\((\*?)([\w]+)\)\.(\w+)$', name)
                stack = [f"({mm.group(1)}{pkg}.{mm.group(2)}).{mm.group(3)}" if mm else f"{pkg}.{name}"]
                continue
            m = re.match(r'closure\[(\d+)\]', t)
            if m and stack:
                stack.append(stack[-1] + '$' + str(int(m.group(1)) + 1)); continue
            if t == 'end' and len(stack) > 1:
                stack.pop(); continue
            if not stack or stack[-1] != fn:
                continue
            m = re.search(r'(\s' + re.escape(clause) + r')(\s*\[((?:C\d\d)(?:\s*,\s*C\d\d)*)\])?\s*:', ln)
            if not m:
                continue
            if not m.group(2):
                res = 'untagged-clause'; continue
            tags = re.split(r'\s*,\s*', m.group(3))
            if prop in tags:
                res = 'present'; continue
            tags = sorted(set(tags + [prop]))
            lines[i] = ln[:m.start(2)] + ' [' + ','.join(tags) + ']' + ln[m.end(2):]
            changed = True; res = 'added'
        if changed:
            open(f, 'w').write('\n'.join(lines))
    return res

def add_unit(fn, prop, safety=False):
    path = f'/verif/checks/{prop}.json'
    c = json.load(open(path))
    for u in c['units']:
        if u['func'] == fn:
            if safety and not u.get('safety'):
                u['safety'] = True
                json.dump(c, open(path, 'w'), indent=1); return 'safety-on'
            return 'unit-present'
    u = {"mod": 'cmd' if 'go-car/cmd' in fn else ('v2' if 'go-car/v2' in fn else '.'), "func": fn}
    if safety:
        u['safety'] = True
    c['units'].append(u)
    json.dump(c, open(path, 'w'), indent=1)
    return 'unit-added'

def main():
    pairs = []
    if sys.argv[1] == '-f':
        for l in open(sys.argv[2]):
            l = l.strip()
            if l:
                p, ob = l.split(None, 1); pairs.append((p, ob))
    else:
        pairs = [(sys.argv[1], ob) for ob in sys.argv[2:]]
    for prop, ob in pairs:
        fn, kind, clause = parse(ob)
        r = add_tag(fn, clause, prop) if kind == 'clause' else kind
        u = add_unit(fn, prop, safety=(kind == 'safety'))
        print(prop, ob, '->', r, u)

main()
