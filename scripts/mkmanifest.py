#!/usr/bin/env python3
"""Regenerates /verif/MANIFEST.json from the per-property claim table below.

A property is claimed iff it has an entry in CLAIMS and /verif/checks/<id>.json exists;
every other property is listed under not_applicable with its reason."""
import json, os, subprocess

V = '/verif'
props = [json.loads(l) for l in open(f'{V}/properties.jsonl')]

TECH = ("contract-based deductive verification: weakest-precondition style VCs generated from go/ssa (naive form) of the "
        "working tree, contracts in comment-only files under build tag verif, discharged by z3 5.1.0 / cvc5 1.0 / z3 4.8.12")

CLAIMS = {}
NA = {}
exec(open(f'{V}/scripts/claims.py').read())

def hook_commits():
    try:
        out = subprocess.run(['git', '-C', '/repo', 'log', '--format=%H %s'], capture_output=True, text=True).stdout
        return [l.split()[0] for l in out.splitlines() if ' verif:' in ' ' + l.split(' ', 1)[1] or l.split(' ', 1)[1].startswith('verif:')]
    except Exception:
        return []

checks = []
na = []
for p in props:
    pid = p['id']
    if pid in CLAIMS and os.path.exists(f'{V}/checks/{pid}.json'):
        c = CLAIMS[pid]
        checks.append({
            'property_id': pid,
            'quick_cmd': f'/verif/bin/gcv check --property {pid} --tier quick',
            'thorough_cmd': f'/verif/bin/gcv check --property {pid} --tier thorough',
            'evidence_file': f'/verif/evidence/{pid}.json',
            'replay_cmd_template': '/verif/bin/gcv replay {path}',
            'engine': 'gcv',
            'level_claimed': {'category': 'proof', 'text': c['text'], 'design_ref': c.get('ref', 'DESIGN.md §5 ' + pid)},
            'level_note': c['note'],
            'technique': TECH,
        })
    else:
        na.append({'property_id': pid, 'reason': NA.get(pid, 'check not built yet')})

m = {
    'version': 1,
    'setup_cmd': 'sh /verif/scripts/setup.sh',
    'hooks': {
        'guard': 'verif',
        'enable': 'build tag verif: the only guarded files are the comment-only contract files zz_contracts_verif.go, which gcv reads from the working tree; replay drivers are injected with go test -overlay',
        'baseline_off_cmd': 'sh /verif/scripts/baseline_off.sh',
        'source_commits': hook_commits(),
        'add_only': True,
    },
    'engines': [{
        'name': 'gcv', 'path': '/verif/gcv', 'serves_properties': [c['property_id'] for c in checks],
        'kind_free_text': 'contract-based deductive verifier for Go written for this task: VC generation over go/ssa naive form (x/tools v0.29.0), '
                          'mathematical-Int machine arithmetic with explicit wrap, Burstall field maps, ghost stream positions; back ends z3 5.1.0, cvc5 1.0, z3 4.8.12',
    }],
    'checks': checks,
    'notes': 'Contracts live in /repo/**/zz_contracts_verif.go (tag verif) and /verif/contracts; expectation lists in /verif/checks; '
             'known findings in /verif/known_findings.json; seeded breaking changes in /verif/seeded. '
             '/repo commit 3766ad6 ("uncommitted hook changes", made by the round driver) is not a hook: it is seed C20-J caught in /repo\'s working tree by the end-of-round snapshot; '
             'it broke C20, the check reported it, and fix: commit e445ed7 repairs it (DESIGN.md §7 D17).',
    'not_applicable': na,
}
json.dump(m, open(f'{V}/MANIFEST.json', 'w'), indent=1)
print('claimed:', [c['property_id'] for c in checks])
