#!/usr/bin/env python3
"""Every clause tagged [Cxx] in a contract file must belong to a function (or function literal) that is a unit
of checks/Cxx.json, otherwise the tag is decorative and the clause is never discharged for that property.
Prints the (function, property) pairs that are tagged but not checked; exit 1 if there are any."""
import glob, json, re, subprocess, sys
pkgof = {}
out = subprocess.run(['git', '-C', '/repo', 'ls-files'], capture_output=True, text=True).stdout.split()
files = ['/repo/' + f for f in out if f.endswith('zz_contracts_verif.go')]
units = {}
for f in glob.glob('/verif/checks/C*.json'):
    c = json.load(open(f))
    units[c.get('property', f.split('/')[-1][:3])] = {u['func'] for u in c['units']}
def modpath(f):
    d = f[len('/repo/'):].rsplit('/', 1)[0] if '/' in f[len('/repo/'):] else ''
    base = 'github.com/ipld/go-car'
    return base + ('/' + d if d else '')
missing = {}
for f in files:
    pkg = modpath(f)
    cur = None; stack = []
    for ln in open(f):
        t = ln.strip()
        if not t.startswith('//@'):
            continue
        t = t[3:].strip()
        m = re.match(r'func\s+(.*)$', t)
        if m:
            name = m.group(1).strip()
            mm = re.match(r'\((\*?)([\w]+)\)\.(\w+)$', name)
            cur = f"({mm.group(1)}{pkg}.{mm.group(2)}).{mm.group(3)}" if mm else f"{pkg}.{name}"
            stack = [cur]; continue
        m = re.match(r'closure\[(\d+)\]', t)
        if m and stack:
            stack.append(stack[-1] + '$' + str(int(m.group(1)) + 1)); continue
        if t == 'end' and len(stack) > 1:
            stack.pop(); continue
        if not stack:
            continue
        m = re.search(r'\[((?:C\d\d)(?:\s*,\s*C\d\d)*)\]\s*:', t)
        if m:
            for p in re.split(r'\s*,\s*', m.group(1)):
                if stack[-1] not in units.get(p, set()):
                    missing.setdefault((stack[-1], p), []).append(t[:70])
for (fn, p), ls in sorted(missing.items()):
    print(p, fn.replace('github.com/ipld/go-car', ''), '|', ls[0])
print(len(missing), 'tagged-but-unchecked (function, property) pairs')
sys.exit(1 if missing else 0)
