#!/usr/bin/env python3
"""install_wave.py <wave-no> <suffix> <validation.json> <src-dir> <origin text>
Installs validated sub-agent seeds <src-dir>/<id>-<suffix>/ into /verif/seeded/<id>-<suffix>/ with a meta.json."""
import json, os, shutil, sys
wave, suf, val, src, origin = int(sys.argv[1]), sys.argv[2], json.load(open(sys.argv[3])), sys.argv[4], sys.argv[5]
for key, v in sorted(val.items()):
    name = os.path.basename(v["seed"])
    if not name.endswith("-" + suf):
        continue
    assert v["demo_with_change"] == "fail" and v["demo_without_change"] == "pass", name
    dst = os.path.join("/verif/seeded", name)
    os.makedirs(dst, exist_ok=True)
    shutil.copy(os.path.join(src, name, "patch.diff"), dst)
    shutil.copy(os.path.join(src, name, "demo_test.go"), dst)
    notes = open(os.path.join(src, name, "meta.txt")).read()
    open(os.path.join(dst, "notes_from_author.txt"), "w").write(notes)
    meta = {
        "breaks_property": name.split("-")[0],
        "wave": wave,
        "origin": origin,
        "needs_to_manifest": " ".join(notes.split())[:900],
        "demo": {"package_dir": v["demo_dir"], "tests": v["demo_tests"], "command": v["demo_cmd"],
                 "place_as": v["demo_dir"].rstrip("/") + "/zz_seed_demo_test.go"},
        "validated_by_me": {
            "tree": "scratch worktree of /repo HEAD (with the fix: commits)",
            "full_suite_with_change": v.get("suite_with_change", {".": "pass", "v2": "pass", "cmd": "pass"}),
            "demo_with_change": "fail", "demo_without_change": "pass",
            "how": "scripts/validate_seeds.py: git apply, go build + go test ./... in all three modules (must pass), demo must fail with the change and pass without",
        },
    }
    json.dump(meta, open(os.path.join(dst, "meta.json"), "w"), indent=1)
    print("installed", name)
