#!/bin/sh
# Runs the repository's pinned test suite with the `verif` guard OFF (the contract files are not even parsed).
. /verif/scripts/env.sh
rc=0
for m in . cmd v2; do
  (cd /repo/$m && go test -mod=mod -json -vet=off -count=1 -timeout 25m ./...) || rc=1
done
exit $rc
