# environment for every offline go invocation
export GOFLAGS=-mod=mod GOPROXY=off GOSUMDB=off GOTOOLCHAIN=local CARGO_NET_OFFLINE=true PIP_NO_INDEX=1
