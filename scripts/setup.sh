#!/bin/sh
# Builds the verification engine from files on disk only (x/tools v0.29.0 from the module cache).
set -e
. /verif/scripts/env.sh
cd /verif/gcv
mkdir -p /verif/bin /verif/evidence
go build -o /verif/bin/gcv .
echo "gcv built"
