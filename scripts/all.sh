#!/bin/sh
# usage: all.sh [expect]   — (re)generate expectation lists and/or run every claimed check
. /verif/scripts/env.sh
props=$(ls /verif/checks/*.json | sed 's|.*/||; s|\.json||')
if [ "$1" = expect ]; then for p in $props; do /verif/bin/gcv expect --property $p | tail -3; done; fi
rc=0
for p in $props; do /verif/bin/gcv check --property $p > /tmp/gcv_$p.out 2>&1 || rc=1; grep -E "^VIOLATION|^KNOWN" /tmp/gcv_$p.out | cut -c1-220; tail -1 /tmp/gcv_$p.out; done
exit $rc
