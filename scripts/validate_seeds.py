#!/usr/bin/env python3
"""Validates seeded breaking changes in a scratch worktree of /repo's HEAD:
applies, builds, runs the whole pinned suite (must pass), runs the demonstration (must fail with the
change, pass without).  usage: validate_seeds.py <worktree> <out.json> <seed dirs...>"""
import json, os, re, subprocess, sys, shutil

ENV = dict(os.environ, GOFLAGS='-mod=mod', GOPROXY='off', GOSUMDB='off', GOTOOLCHAIN='local')
PKGDIR = {'storage_test': 'v2/storage', 'storage': 'v2/storage', 'blockstore_test': 'v2/blockstore', 'blockstore': 'v2/blockstore',
          'deferred_test': 'v2/storage/deferred', 'deferred': 'v2/storage/deferred', 'index_test': 'v2/index', 'index': 'v2/index',
          'store': 'v2/internal/store', 'store_test': 'v2/internal/store', 'io': 'v2/internal/io', 'carv1': 'v2/internal/carv1',
          'util': 'v2/internal/carv1/util', 'util_test': 'v2/internal/carv1/util', 'loader': 'v2/internal/loader', 'lib': 'cmd/car/lib', 'main': 'cmd/car'}

def sh(cmd, cwd, timeout=1500):
    p = subprocess.run(cmd, cwd=cwd, env=ENV, shell=True, capture_output=True, text=True, timeout=timeout)
    return p.returncode, (p.stdout + p.stderr)[-3000:]

def demo_dir(seed):
    meta = open(os.path.join(seed, 'meta.txt')).read()
    demo = open(os.path.join(seed, 'demo_test.go')).read()
    pkg = re.search(r'^package\s+(\w+)', demo, re.M).group(1)
    m = re.search(r'(?:to|into)\s+(?:<worktree>/)?(?:\./)?((?:[\w.-]+/)*)[\w.-]*_test\.go', meta)
    if m and m.group(1):
        return m.group(1).rstrip('/'), pkg
    if m and not m.group(1) and pkg in ('car_test', 'car'):
        return '.', pkg
    if pkg in ('car_test', 'car'):
        if re.search(r'root module|module \.\s|go-car"\s*$', meta) and 'v2' not in (m.group(0) if m else ''):
            return ('.' if 'github.com/ipld/go-car/v2"' not in demo and '/v2/' not in demo else 'v2'), pkg
        return 'v2', pkg
    return PKGDIR.get(pkg, 'v2'), pkg

def main():
    wt, out = sys.argv[1], sys.argv[2]
    results = json.load(open(out)) if os.path.exists(out) else {}
    for seed in sys.argv[3:]:
        name = '/'.join(seed.rstrip('/').split('/')[-3::2])
        r = {'seed': seed}
        sh('git checkout -- . && git clean -fdq -e _seed', wt)
        rc, o = sh(f'git apply --check {seed}/patch.diff', wt)
        if rc != 0:
            r['status'] = 'patch-does-not-apply'; r['detail'] = o; results[name] = r
            json.dump(results, open(out, 'w'), indent=1); continue
        ddir, pkg = demo_dir(seed)
        tests = re.findall(r'^func (Test\w+|Example\w*)\(', open(os.path.join(seed, 'demo_test.go')).read(), re.M)
        r['demo_dir'], r['demo_tests'] = ddir, tests
        mod = 'v2' if ddir.startswith('v2') else ('cmd' if ddir.startswith('cmd') else '.')
        rel = './' + (ddir[len(mod):].lstrip('/') if mod != '.' else ddir) if ddir not in ('.', mod) else '.'
        dst = os.path.join(wt, ddir, 'zz_seed_demo_test.go')
        run = f"go test -vet=off -count=1 -timeout 300s -run '^({'|'.join(tests)})$' {rel}"
        moddir = os.path.join(wt, mod)
        # without the change
        shutil.copy(os.path.join(seed, 'demo_test.go'), dst)
        rc0, o0 = sh(run, moddir)
        # with the change
        sh(f'git apply {seed}/patch.diff', wt)
        rc1, o1 = sh(run, moddir)
        os.remove(dst)
        r['demo_without_change'] = 'pass' if rc0 == 0 else 'FAIL'
        r['demo_with_change'] = 'fail' if rc1 != 0 else 'PASS'
        r['demo_cmd'] = f'(cd {mod} && {run})'
        r['demo_out_with_change'] = o1[-800:]
        if rc0 != 0:
            r['demo_out_without_change'] = o0[-800:]
        suite = {}
        ok = True
        for m_ in ['.', 'v2', 'cmd']:
            rc, o = sh('go build ./... && go test -vet=off -count=1 -timeout 20m ./...', os.path.join(wt, m_))
            suite[m_] = 'pass' if rc == 0 else 'FAIL'
            if rc != 0:
                ok = False; r['suite_out_' + m_] = o[-1500:]
        r['suite_with_change'] = suite
        r['status'] = 'valid' if (ok and rc0 == 0 and rc1 != 0) else 'invalid'
        sh('git checkout -- . && git clean -fdq -e _seed', wt)
        results[name] = r
        json.dump(results, open(out, 'w'), indent=1)
        print(name, r['status'], flush=True)

main()
