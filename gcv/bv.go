package main

// Bit-vector mode (`bitvector` in a function's contract): straight-line functions over 64-bit integers and
// booleans are translated instruction by instruction to (_ BitVec 64) terms, with Go's exact semantics for
// shifts and bitwise operators, instead of the mathematical-integer model of exec.go in which `|`, `&`, `^`
// and variable shifts are uninterpreted.  The contract is the same text as in the integer world; here the
// vocabulary function bitof(x, k) is *interpreted* ((x >> k) & 1), so a contract that the integer-world
// callers use as an assumed fact about bitof is proved against the real body.
//
// Subset: one basic block, parameters / locals / results of type int, uint, int64, uint64, uintptr or bool,
// no calls, no memory other than the function's own non-escaping locals.  Anything else is an error of the
// unit (fails closed).

import (
	"fmt"
	"go/ast"
	"go/constant"
	"go/token"
	"go/types"
	"strconv"
	"strings"
	"time"

	"golang.org/x/tools/go/ssa"
)

type bvVal struct {
	t      Term
	isBool bool
	signed bool
}

type bvExec struct {
	eng    *Engine
	fn     *ssa.Function
	regs   map[ssa.Value]bvVal
	cells  map[*ssa.Alloc]bvVal
	script *Script
	errs   []string
	entry  map[string]bvVal // parameters at entry
	result []bvVal
	nfresh int
}

func bv64(n uint64) Term { return fmt.Sprintf("#x%016x", n) }

func is64(t types.Type) (signed bool, ok bool) {
	k, ok := intKindOf(t)
	if !ok || k.bits != 64 {
		return false, false
	}
	return k.signed, true
}

func (b *bvExec) errorf(format string, a ...interface{}) {
	b.errs = append(b.errs, fmt.Sprintf(format, a...))
}

func (b *bvExec) val(v ssa.Value) bvVal {
	if r, ok := b.regs[v]; ok {
		return r
	}
	if c, ok := v.(*ssa.Const); ok {
		if isBool(c.Type()) {
			if constant.BoolVal(c.Value) {
				return bvVal{t: "true", isBool: true}
			}
			return bvVal{t: "false", isBool: true}
		}
		if sg, ok := is64(c.Type()); ok && c.Value != nil && c.Value.Kind() == constant.Int {
			if u, exact := constant.Uint64Val(c.Value); exact {
				return bvVal{t: bv64(u), signed: sg}
			}
			if i, exact := constant.Int64Val(c.Value); exact {
				return bvVal{t: bv64(uint64(i)), signed: sg}
			}
		}
	}
	b.errorf("bitvector mode: unsupported value %s (%T) of type %s", v.Name(), v, v.Type())
	return bvVal{t: bv64(0)}
}

func (b *bvExec) run() {
	fn := b.fn
	if len(fn.Blocks) != 1 {
		b.errorf("bitvector mode supports straight-line functions only (%d blocks)", len(fn.Blocks))
		return
	}
	for _, p := range fn.Params {
		name := sym("p." + p.Name())
		if isBool(p.Type()) {
			b.script.Decls = append(b.script.Decls, fmt.Sprintf("(declare-const %s Bool)", name))
			b.regs[p] = bvVal{t: name, isBool: true}
		} else if sg, ok := is64(p.Type()); ok {
			b.script.Decls = append(b.script.Decls, fmt.Sprintf("(declare-const %s (_ BitVec 64))", name))
			b.regs[p] = bvVal{t: name, signed: sg}
		} else {
			b.errorf("bitvector mode: parameter %s has unsupported type %s", p.Name(), p.Type())
			return
		}
		b.entry[p.Name()] = b.regs[p]
	}
	for _, in := range fn.Blocks[0].Instrs {
		switch x := in.(type) {
		case *ssa.DebugRef, *ssa.RunDefers:
			// no defer statement is in the subset, so rundefers does nothing
		case *ssa.Call:
			if bi, ok := x.Call.Value.(*ssa.Builtin); ok && bi.Name() == "ssa:deferstack" {
				b.regs[x] = bvVal{t: "opaque"}
				continue
			}
			b.errorf("bitvector mode: calls are not in the subset (%s)", x.Call.Value.Name())
			return
		case *ssa.Alloc:
			if strings.Contains(x.Type().String(), "deferStack") {
				continue
			}
			if x.Heap {
				b.errorf("bitvector mode: escaping local %s", x.Comment)
				return
			}
			et := x.Type().(*types.Pointer).Elem()
			if isBool(et) {
				b.cells[x] = bvVal{t: "false", isBool: true}
			} else if sg, ok := is64(et); ok {
				b.cells[x] = bvVal{t: bv64(0), signed: sg}
			} else {
				b.errorf("bitvector mode: local %s has unsupported type %s", x.Comment, et)
				return
			}
		case *ssa.Store:
			a, ok := x.Addr.(*ssa.Alloc)
			if !ok {
				b.errorf("bitvector mode: store through %s", x.Addr.Name())
				return
			}
			if strings.Contains(a.Type().String(), "deferStack") {
				continue
			}
			b.cells[a] = b.val(x.Val)
		case *ssa.UnOp:
			switch x.Op {
			case token.MUL:
				a, ok := x.X.(*ssa.Alloc)
				if !ok {
					b.errorf("bitvector mode: load through %s", x.X.Name())
					return
				}
				b.regs[x] = b.cells[a]
			case token.XOR:
				v := b.val(x.X)
				b.regs[x] = bvVal{t: sx("bvnot", v.t), signed: v.signed}
			case token.SUB:
				v := b.val(x.X)
				b.regs[x] = bvVal{t: sx("bvneg", v.t), signed: v.signed}
			case token.NOT:
				v := b.val(x.X)
				b.regs[x] = bvVal{t: tNot(v.t), isBool: true}
			default:
				b.errorf("bitvector mode: unsupported unary operator %s", x.Op)
				return
			}
		case *ssa.BinOp:
			l, r := b.val(x.X), b.val(x.Y)
			if l.isBool != r.isBool {
				b.errorf("bitvector mode: mixed operands of %s", x.Op)
				return
			}
			if l.isBool {
				switch x.Op {
				case token.EQL:
					b.regs[x] = bvVal{t: tEq(l.t, r.t), isBool: true}
				case token.NEQ:
					b.regs[x] = bvVal{t: tNot(tEq(l.t, r.t)), isBool: true}
				case token.LAND, token.AND:
					b.regs[x] = bvVal{t: tAnd(l.t, r.t), isBool: true}
				case token.LOR, token.OR:
					b.regs[x] = bvVal{t: tOr(l.t, r.t), isBool: true}
				default:
					b.errorf("bitvector mode: unsupported boolean operator %s", x.Op)
					return
				}
				continue
			}
			sg := l.signed
			arith := map[token.Token]string{token.ADD: "bvadd", token.SUB: "bvsub", token.MUL: "bvmul", token.AND: "bvand", token.OR: "bvor", token.XOR: "bvxor", token.SHL: "bvshl"}
			ucmp := map[token.Token]string{token.LSS: "bvult", token.LEQ: "bvule", token.GTR: "bvugt", token.GEQ: "bvuge"}
			scmp := map[token.Token]string{token.LSS: "bvslt", token.LEQ: "bvsle", token.GTR: "bvsgt", token.GEQ: "bvsge"}
			switch {
			case arith[x.Op] != "":
				// Go: a shift count >= 64 yields 0, which is also the SMT-LIB meaning of bvshl / bvlshr
				b.regs[x] = bvVal{t: sx(arith[x.Op], l.t, r.t), signed: sg}
			case x.Op == token.AND_NOT:
				b.regs[x] = bvVal{t: sx("bvand", l.t, sx("bvnot", r.t)), signed: sg}
			case x.Op == token.SHR:
				op := "bvlshr"
				if sg {
					op = "bvashr"
				}
				b.regs[x] = bvVal{t: sx(op, l.t, r.t), signed: sg}
			case x.Op == token.EQL:
				b.regs[x] = bvVal{t: tEq(l.t, r.t), isBool: true}
			case x.Op == token.NEQ:
				b.regs[x] = bvVal{t: tNot(tEq(l.t, r.t)), isBool: true}
			case ucmp[x.Op] != "":
				op := ucmp[x.Op]
				if sg {
					op = scmp[x.Op]
				}
				b.regs[x] = bvVal{t: sx(op, l.t, r.t), isBool: true}
			default:
				// division and remainder can panic: not in the subset
				b.errorf("bitvector mode: unsupported operator %s", x.Op)
				return
			}
		case *ssa.Convert:
			v := b.val(x.X)
			sg, ok := is64(x.Type())
			if !ok || v.isBool {
				b.errorf("bitvector mode: unsupported conversion to %s", x.Type())
				return
			}
			b.regs[x] = bvVal{t: v.t, signed: sg}
		case *ssa.ChangeType:
			b.regs[x] = b.val(x.X)
		case *ssa.Return:
			for _, r := range x.Results {
				b.result = append(b.result, b.val(r))
			}
		default:
			b.errorf("bitvector mode: unsupported instruction %T", in)
			return
		}
	}
}

// clause translation ---------------------------------------------------------

type bvCtx struct {
	b     *bvExec
	bound map[string]Term
	sig   *types.Signature
}

func (c *bvCtx) cexpr(x *CExpr) bvVal {
	switch x.Op {
	case "==>":
		return bvVal{t: tImp(c.cexpr(x.L).t, c.cexpr(x.R).t), isBool: true}
	case "<==>":
		return bvVal{t: tEq(c.cexpr(x.L).t, c.cexpr(x.R).t), isBool: true}
	}
	return c.expr(x.E)
}

func (c *bvCtx) expr(e ast.Expr) bvVal {
	b := c.b
	switch x := e.(type) {
	case *ast.ParenExpr:
		return c.expr(x.X)
	case *ast.BasicLit:
		if x.Kind == token.INT {
			if u, err := strconv.ParseUint(x.Value, 0, 64); err == nil {
				return bvVal{t: bv64(u)}
			}
		}
	case *ast.Ident:
		if t, ok := c.bound[x.Name]; ok {
			return bvVal{t: t}
		}
		switch x.Name {
		case "true", "false":
			return bvVal{t: x.Name, isBool: true}
		case "result", "result0":
			if len(b.result) > 0 {
				return b.result[0]
			}
		}
		if c.sig != nil {
			for i := 0; i < c.sig.Results().Len() && i < len(b.result); i++ {
				if c.sig.Results().At(i).Name() == x.Name {
					return b.result[i]
				}
			}
		}
		if v, ok := b.entry[x.Name]; ok {
			return v
		}
	case *ast.UnaryExpr:
		if x.Op == token.NOT {
			return bvVal{t: tNot(c.expr(x.X).t), isBool: true}
		}
	case *ast.BinaryExpr:
		l, r := c.expr(x.X), c.expr(x.Y)
		sg := l.signed || r.signed
		switch x.Op {
		case token.LAND:
			return bvVal{t: tAnd(l.t, r.t), isBool: true}
		case token.LOR:
			return bvVal{t: tOr(l.t, r.t), isBool: true}
		case token.EQL:
			return bvVal{t: tEq(l.t, r.t), isBool: true}
		case token.NEQ:
			return bvVal{t: tNot(tEq(l.t, r.t)), isBool: true}
		case token.LSS, token.LEQ, token.GTR, token.GEQ:
			op := map[token.Token]string{token.LSS: "bvult", token.LEQ: "bvule", token.GTR: "bvugt", token.GEQ: "bvuge"}[x.Op]
			if sg {
				op = strings.Replace(op, "bvu", "bvs", 1)
			}
			return bvVal{t: sx(op, l.t, r.t), isBool: true}
		case token.ADD:
			return bvVal{t: sx("bvadd", l.t, r.t), signed: sg}
		case token.SUB:
			return bvVal{t: sx("bvsub", l.t, r.t), signed: sg}
		}
	case *ast.CallExpr:
		if id, ok := x.Fun.(*ast.Ident); ok {
			switch id.Name {
			case "bitof":
				// bitof(x, k): bit k of x (0 for k >= 64), as a 64-bit 0 / 1
				return bvVal{t: sx("bvand", sx("bvlshr", c.expr(x.Args[0]).t, c.expr(x.Args[1]).t), bv64(1))}
			case "forall", "exists":
				v := x.Args[0].(*ast.Ident).Name
				b.nfresh++
				qv := sym(fmt.Sprintf("q.%s!%d", v, b.nfresh))
				n := &bvCtx{b: b, sig: c.sig, bound: map[string]Term{}}
				for k, t := range c.bound {
					n.bound[k] = t
				}
				n.bound[v] = qv
				rng := tAnd(sx("bvule", c.expr(x.Args[1]).t, qv), sx("bvult", qv, c.expr(x.Args[2]).t))
				body := n.expr(x.Args[3]).t
				if id.Name == "forall" {
					return bvVal{t: fmt.Sprintf("(forall ((%s (_ BitVec 64))) %s)", qv, tImp(rng, body)), isBool: true}
				}
				return bvVal{t: fmt.Sprintf("(exists ((%s (_ BitVec 64))) %s)", qv, tAnd(rng, body)), isBool: true}
			case "ite":
				cnd, l, r := c.expr(x.Args[0]), c.expr(x.Args[1]), c.expr(x.Args[2])
				return bvVal{t: tIte(cnd.t, l.t, r.t), isBool: l.isBool, signed: l.signed}
			case "implies":
				return bvVal{t: tImp(c.expr(x.Args[0]).t, c.expr(x.Args[1]).t), isBool: true}
			}
		}
	}
	b.errorf("bitvector mode: unsupported contract expression %s", exprString(e))
	return bvVal{t: "false", isBool: true}
}

func exprString(e ast.Expr) string {
	return types.ExprString(e)
}

// verifyBV is verifyFunc for a function whose contract says `bitvector`.
func (e *Engine) verifyBV(key string, con *Contract, timeoutS, seed int, allSolvers, solve bool) *FuncResult {
	res := &FuncResult{Key: key, Name: displayName(key)}
	fn := e.funcs[key]
	t0 := time.Now()
	b := &bvExec{eng: e, fn: fn, regs: map[ssa.Value]bvVal{}, cells: map[*ssa.Alloc]bvVal{}, script: &Script{}, entry: map[string]bvVal{}}
	b.run()
	ctx := &bvCtx{b: b, bound: map[string]Term{}, sig: fn.Signature}
	pos := fn.Pos()
	where := ""
	if pos.IsValid() {
		p := e.fset.Position(pos)
		where = fmt.Sprintf("%s:%d", strings.TrimPrefix(p.Filename, repoRoot+"/"), p.Line)
	}
	if len(b.errs) == 0 {
		for _, rq := range con.Requires {
			b.script.Asms = append(b.script.Asms, Asm{T: ctx.cexpr(rq.X).t, Why: "requires " + rq.Label, NDecl: len(b.script.Decls)})
		}
		for _, a := range con.Assumes {
			b.script.Asms = append(b.script.Asms, Asm{T: ctx.cexpr(a.X).t, Why: "assume " + a.Label, NDecl: len(b.script.Decls)})
			res.Assumes = append(res.Assumes, res.Name+": assume "+a.Label+": "+a.Src)
		}
		for _, en := range append(append([]Clause(nil), con.Ensures...), con.Checks...) {
			g := ctx.cexpr(en.X).t
			b.script.Obs = append(b.script.Obs, &Obligation{Name: res.Name + "#post:" + en.Label, Func: res.Name, Label: "post:" + en.Label, Props: en.Props, PC: "true", Goal: g, NAsm: len(b.script.Asms), NDecl: len(b.script.Decls), Where: where, Note: "[bit-vector mode] " + en.Src})
		}
	}
	if len(b.errs) > 0 {
		// fail closed: every clause of the contract becomes a failed obligation
		for _, en := range con.Ensures {
			b.script.Obs = append(b.script.Obs, &Obligation{Name: res.Name + "#post:" + en.Label, Func: res.Name, Label: "post:" + en.Label, Props: en.Props, PC: "true", Goal: "false", Where: where, Note: "CANNOT BE EVALUATED: " + b.errs[0] + " | " + en.Src})
		}
		res.Warns = append(res.Warns, b.errs...)
	}
	res.GenMS = time.Since(t0).Milliseconds()
	res.Blocks, res.BlocksAll = len(fn.Blocks), len(fn.Blocks)
	res.Unknown, res.Used, res.Abstracted = map[string]int{}, map[string]bool{}, map[string]int{"bit-vector mode": 1}
	res.Script = b.script
	res.Obs = b.script.Obs
	if !solve {
		return res
	}
	probe := &Obligation{PC: "true", Goal: "false", NAsm: len(b.script.Asms)}
	res.Vacuity = checkSat(b.script.text(probe, false, nil), timeoutS)
	if res.Vacuity == "unsat" {
		res.Errs = append(res.Errs, "vacuity: the assumptions of "+res.Name+" are contradictory")
	}
	t1 := time.Now()
	if se := b.script.solveAll(timeoutS, seed, allSolvers); se != "" {
		res.Errs = append(res.Errs, "solver error: "+se)
	}
	res.SolveMS = time.Since(t1).Milliseconds()
	return res
}
