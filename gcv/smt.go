package main

// SMT-LIB term construction and solver back ends.
//
// Integers are mathematical Int with an exact machine model: every typed value
// carries its range as an assumption, + and - use a single conditional wrap,
// * and conversions wrap with mod.  See DESIGN.md §3.2(5).

import (
	"bytes"
	"context"
	"fmt"
	"math/big"
	"os"
	"os/exec"
	"path/filepath"
	"sort"
	"strconv"
	"strings"
	"sync"
	"time"
)

type Term = string

func sx(op string, args ...Term) Term {
	return "(" + op + " " + strings.Join(args, " ") + ")"
}

func tAnd(ts ...Term) Term {
	var out []Term
	for _, t := range ts {
		if t == "true" {
			continue
		}
		if t == "false" {
			return "false"
		}
		out = append(out, t)
	}
	switch len(out) {
	case 0:
		return "true"
	case 1:
		return out[0]
	}
	return sx("and", out...)
}

func tOr(ts ...Term) Term {
	var out []Term
	for _, t := range ts {
		if t == "false" {
			continue
		}
		if t == "true" {
			return "true"
		}
		out = append(out, t)
	}
	switch len(out) {
	case 0:
		return "false"
	case 1:
		return out[0]
	}
	return sx("or", out...)
}

func tNot(t Term) Term {
	switch t {
	case "true":
		return "false"
	case "false":
		return "true"
	}
	if strings.HasPrefix(t, "(not ") && balanced(t[5:len(t)-1]) {
		return t[5 : len(t)-1]
	}
	return sx("not", t)
}

func balanced(s string) bool {
	d := 0
	inq := false
	for i := 0; i < len(s); i++ {
		c := s[i]
		if c == '|' {
			inq = !inq
		}
		if inq {
			continue
		}
		if c == '(' {
			d++
		} else if c == ')' {
			d--
			if d < 0 {
				return false
			}
			if d == 0 && i != len(s)-1 {
				return false
			}
		} else if d == 0 && (c == ' ') {
			return false
		}
	}
	return d == 0
}

func tImp(a, b Term) Term {
	if a == "true" {
		return b
	}
	if a == "false" || b == "true" {
		return "true"
	}
	return sx("=>", a, b)
}

func tEq(a, b Term) Term {
	if a == b {
		return "true"
	}
	return sx("=", a, b)
}

func tIte(c, a, b Term) Term {
	if c == "true" {
		return a
	}
	if c == "false" {
		return b
	}
	if a == b {
		return a
	}
	return sx("ite", c, a, b)
}

func tInt(n int64) Term {
	if n < 0 {
		return fmt.Sprintf("(- %d)", -n)
	}
	return fmt.Sprintf("%d", n)
}

func tBig(n *big.Int) Term {
	if n.Sign() < 0 {
		return "(- " + new(big.Int).Neg(n).String() + ")"
	}
	return n.String()
}

func pow2(k uint) *big.Int { return new(big.Int).Lsh(big.NewInt(1), k) }

func sym(name string) Term {
	ok := true
	for _, c := range name {
		if !(c >= 'a' && c <= 'z' || c >= 'A' && c <= 'Z' || c >= '0' && c <= '9' || c == '_' || c == '.' || c == '$' || c == '!' || c == '@') {
			ok = false
			break
		}
	}
	if ok && name != "" && !(name[0] >= '0' && name[0] <= '9') {
		return name
	}
	return "|" + strings.NewReplacer("|", "!", "\\", "/").Replace(name) + "|"
}

const prelude = `
(define-fun vsize ((x Int)) Int
  (ite (< x 128) 1 (ite (< x 16384) 2 (ite (< x 2097152) 3 (ite (< x 268435456) 4
  (ite (< x 34359738368) 5 (ite (< x 4398046511104) 6 (ite (< x 562949953421312) 7
  (ite (< x 72057594037927936) 8 (ite (< x 9223372036854775808) 9 10))))))))))
(define-fun wrap1_u64 ((x Int)) Int (ite (< x 0) (+ x 18446744073709551616) (ite (>= x 18446744073709551616) (- x 18446744073709551616) x)))
(define-fun wrap1_s64 ((x Int)) Int (ite (< x (- 9223372036854775808)) (+ x 18446744073709551616) (ite (>= x 9223372036854775808) (- x 18446744073709551616) x)))
(define-fun wrap1_u32 ((x Int)) Int (ite (< x 0) (+ x 4294967296) (ite (>= x 4294967296) (- x 4294967296) x)))
(define-fun wrap1_s32 ((x Int)) Int (ite (< x (- 2147483648)) (+ x 4294967296) (ite (>= x 2147483648) (- x 4294967296) x)))
(define-fun wrapm_u64 ((x Int)) Int (mod x 18446744073709551616))
(define-fun wrapm_s64 ((x Int)) Int (- (mod (+ x 9223372036854775808) 18446744073709551616) 9223372036854775808))
(define-fun wrapm_u32 ((x Int)) Int (mod x 4294967296))
(define-fun wrapm_s32 ((x Int)) Int (- (mod (+ x 2147483648) 4294967296) 2147483648))
(define-fun wrapm_u16 ((x Int)) Int (mod x 65536))
(define-fun wrapm_s16 ((x Int)) Int (- (mod (+ x 32768) 65536) 32768))
(define-fun wrapm_u8 ((x Int)) Int (mod x 256))
(define-fun wrapm_s8 ((x Int)) Int (- (mod (+ x 128) 256) 128))
(define-fun tdiv ((a Int) (b Int)) Int (ite (>= a 0) (ite (> b 0) (div a b) (- (div a (- b)))) (ite (> b 0) (- (div (- a) b)) (div (- a) (- b)))))
(define-fun trem ((a Int) (b Int)) Int (- a (* b (tdiv a b))))
(define-fun imin ((a Int) (b Int)) Int (ite (<= a b) a b))
(define-fun imax ((a Int) (b Int)) Int (ite (>= a b) a b))
(declare-fun dyn (Int) Int)
(declare-fun payload (Int) Int)
(declare-fun styp (Int) Int)
(declare-fun strlen (Int) Int)
(assert (forall ((x Int)) (! (and (<= 0 (strlen x)) (<= (strlen x) 281474976710656)) :pattern ((strlen x)))))
(assert (= (strlen 0) 0))
(declare-fun band (Int Int) Int)
(declare-fun bor (Int Int) Int)
(declare-fun bxor (Int Int) Int)
(declare-fun bshl (Int Int) Int)
(declare-fun bshr (Int Int) Int)
`

// ---------------------------------------------------------------------------
// Solver scripts

// An Obligation is one proof goal: under the assumptions in force when it was
// generated (assumption prefix [0,NAsm)), pc ⇒ goal.
type Obligation struct {
	Name   string   // e.g. v2/internal/carv1/util.LdRead#post:eof_clean
	Func   string   // function key
	Label  string   // kind:label part
	Props  []string // property tags
	PC     Term
	Goal   Term
	NAsm   int    // number of assumptions in force
	NDecl  int    // number of declarations in force
	Where  string // source position (informational; never part of the name)
	Status string // proved | failed | unknown | timeout
	Solver string
	TimeMS int64
	Model  string
	Output string
	Note   string
	Reach  string // sat: the obligation's path condition is consistent with the assumptions in force; unsat: the obligation is vacuous
	Success bool   // generated at a return whose error result is the constant nil (or that returns no error): a success path
	Clause *CExpr `json:"-"` // the contract clause of a post-condition (automatic replay)
}

type Script struct {
	Decls []string // declare-const / declare-fun lines
	Asms  []Asm
	Obs   []*Obligation
	Extra string // extra prelude (vocabulary: ufuns, axioms)
}

type Asm struct {
	T     Term
	Why   string
	NDecl int
}

func (s *Script) text(upto *Obligation, withModel bool, values []string) string {
	var b bytes.Buffer
	b.WriteString("(set-option :produce-models true)\n(set-logic ALL)\n")
	b.WriteString(prelude)
	b.WriteString(s.Extra)
	di := 0
	emitDecls := func(n int) {
		for ; di < n && di < len(s.Decls); di++ {
			b.WriteString(s.Decls[di])
			b.WriteByte('\n')
		}
	}
	if upto != nil {
		emitDecls(len(s.Decls))
		for i := 0; i < upto.NAsm; i++ {
			fmt.Fprintf(&b, "(assert %s) ; %s\n", s.Asms[i].T, s.Asms[i].Why)
		}
		fmt.Fprintf(&b, "(assert %s)\n(assert (not %s))\n(check-sat)\n", upto.PC, upto.Goal)
		if withModel {
			if len(values) > 0 {
				fmt.Fprintf(&b, "(get-value (%s))\n", strings.Join(values, " "))
			} else {
				b.WriteString("(get-model)\n")
			}
		}
		return b.String()
	}
	emitDecls(len(s.Decls))
	ai := 0
	for oi, o := range s.Obs {
		for ; ai < o.NAsm; ai++ {
			fmt.Fprintf(&b, "(assert %s) ; %s\n", s.Asms[ai].T, s.Asms[ai].Why)
		}
		// results are matched by position, never by name (several sub-goals may share a name)
		fmt.Fprintf(&b, "(push 1)\n(assert %s)\n(assert (not %s))\n(echo \"@@ %d %s\")\n(check-sat)\n(pop 1)\n", o.PC, o.Goal, oi, strings.ReplaceAll(o.Name, "\"", "'"))
	}
	return b.String()
}

type solverSpec struct {
	name string
	argv func(file string, timeoutS int, seed int) []string
}

var solvers = []solverSpec{
	{"z3-5.1.0", func(f string, t, seed int) []string {
		return []string{"z3-new", fmt.Sprintf("-T:%d", t*40), fmt.Sprintf("-t:%d", t*1000), fmt.Sprintf("smt.random_seed=%d", seed), f}
	}},
	{"cvc5-1.0", func(f string, t, seed int) []string {
		return []string{"cvc5", "--incremental", fmt.Sprintf("--tlimit-per=%d", t*1000), fmt.Sprintf("--seed=%d", seed), f}
	}},
	{"z3-4.8.12", func(f string, t, seed int) []string {
		return []string{"z3", fmt.Sprintf("-T:%d", t*40), fmt.Sprintf("-t:%d", t*1000), fmt.Sprintf("smt.random_seed=%d", seed), f}
	}},
}

var tmpDir string
var tmpOnce sync.Once
var tmpCounter int
var tmpMu sync.Mutex

func tmpFile(prefix string) string {
	tmpOnce.Do(func() {
		d, err := os.MkdirTemp("", "gcv-")
		if err != nil {
			panic(err)
		}
		tmpDir = d
	})
	tmpMu.Lock()
	tmpCounter++
	n := tmpCounter
	tmpMu.Unlock()
	return filepath.Join(tmpDir, fmt.Sprintf("%s-%d.smt2", prefix, n))
}

func cleanupTmp() {
	if tmpDir != "" {
		os.RemoveAll(tmpDir)
	}
}

func runSolver(sp solverSpec, text string, timeoutS int, seed int, wall time.Duration) (string, time.Duration) {
	f := tmpFile("q")
	os.WriteFile(f, []byte(text), 0o644)
	defer os.Remove(f)
	argv := sp.argv(f, timeoutS, seed)
	ctx, cancel := context.WithTimeout(context.Background(), wall)
	defer cancel()
	cmd := exec.CommandContext(ctx, argv[0], argv[1:]...)
	var out bytes.Buffer
	cmd.Stdout = &out
	cmd.Stderr = nil
	t0 := time.Now()
	cmd.Run()
	return out.String(), time.Since(t0)
}

// solveAll discharges every obligation of the script: one incremental batch on
// the first solver, then individual re-tries on the other solvers for whatever
// is not `unsat`.
func (s *Script) solveAll(timeoutS int, seed int, allSolvers bool) (solverErr string) {
	if len(s.Obs) == 0 {
		return
	}
	batch := s.text(nil, false, nil)
	out, dur := runSolver(solvers[0], batch, timeoutS, seed, time.Duration(timeoutS*len(s.Obs)+30)*time.Second)
	res := map[int]string{}
	cur := -1
	for _, ln := range strings.Split(out, "\n") {
		ln = strings.TrimSpace(ln)
		if strings.HasPrefix(ln, "(error") && solverErr == "" {
			solverErr = ln
		}
		if strings.HasPrefix(ln, "@@ ") || strings.HasPrefix(ln, "\"@@ ") {
			f := strings.Fields(strings.Trim(ln, "\""))
			cur = -1
			if len(f) >= 2 {
				if n, err := strconv.Atoi(f[1]); err == nil {
					cur = n
				}
			}
			continue
		}
		if cur >= 0 && (ln == "sat" || ln == "unsat" || ln == "unknown" || ln == "timeout") {
			res[cur] = ln
			cur = -1
		} else if cur >= 0 && strings.HasPrefix(ln, "(error") {
			res[cur] = "error: " + ln
			cur = -1
		}
	}
	per := dur.Milliseconds() / int64(len(s.Obs))
	var wg sync.WaitGroup
	sem := make(chan struct{}, 8)
	for oi, o := range s.Obs {
		o := o
		r := res[oi]
		if r == "unsat" && !allSolvers {
			o.Status, o.Solver, o.TimeMS = "proved", solvers[0].name, per
			continue
		}
		wg.Add(1)
		sem <- struct{}{}
		go func() {
			defer wg.Done()
			defer func() { <-sem }()
			s.solveOne(o, timeoutS, seed, r, allSolvers)
		}()
	}
	wg.Wait()
	return
}

// coverAll runs the reachability (cover) check behind every obligation: is its path condition consistent with the
// assumptions in force where it was generated?  An obligation whose path condition is unsatisfiable is discharged
// whatever its goal says.
func (s *Script) coverAll(timeoutS int, seed int) {
	if len(s.Obs) == 0 {
		return
	}
	var b bytes.Buffer
	b.WriteString("(set-option :produce-models false)\n(set-logic ALL)\n")
	b.WriteString(prelude)
	b.WriteString(s.Extra)
	for _, d := range s.Decls {
		b.WriteString(d)
		b.WriteByte('\n')
	}
	ai := 0
	for oi, o := range s.Obs {
		for ; ai < o.NAsm; ai++ {
			fmt.Fprintf(&b, "(assert %s)\n", s.Asms[ai].T)
		}
		fmt.Fprintf(&b, "(push 1)\n(assert %s)\n(echo \"@@ %d\")\n(check-sat)\n(pop 1)\n", o.PC, oi)
	}
	out, _ := runSolver(solvers[0], b.String(), timeoutS, seed, time.Duration(timeoutS*len(s.Obs)+30)*time.Second)
	if d := os.Getenv("GCV_DUMP_COVER"); d != "" {
		os.WriteFile(d, []byte(b.String()+"\n; ---- output\n"+out), 0o644)
	}
	cur := -1
	for _, ln := range strings.Split(out, "\n") {
		ln = strings.TrimSpace(ln)
		if strings.HasPrefix(ln, "@@ ") || strings.HasPrefix(ln, "\"@@ ") {
			f := strings.Fields(strings.Trim(ln, "\""))
			cur = -1
			if len(f) >= 2 {
				if n, err := strconv.Atoi(f[1]); err == nil {
					cur = n
				}
			}
			continue
		}
		if cur >= 0 && cur < len(s.Obs) && (ln == "sat" || ln == "unsat" || ln == "unknown" || ln == "timeout") {
			s.Obs[cur].Reach = ln
			cur = -1
		}
	}
}

func firstLine(s string) string {
	for _, ln := range strings.Split(s, "\n") {
		ln = strings.TrimSpace(ln)
		if ln != "" {
			return ln
		}
	}
	return ""
}

func (s *Script) solveOne(o *Obligation, timeoutS int, seed int, batchRes string, all bool) {
	text := s.text(o, false, nil)
	o.Status = "unknown"
	nUnsat, nSat := 0, 0
	var outs []string
	t0 := time.Now()
	for i, sp := range solvers {
		out, _ := runSolver(sp, text, timeoutS, seed, time.Duration(timeoutS+20)*time.Second)
		fl := firstLine(out)
		outs = append(outs, sp.name+": "+fl)
		if fl == "unsat" {
			nUnsat++
			if o.Solver == "" {
				o.Solver = sp.name
			}
			if !all {
				break
			}
		} else if fl == "sat" {
			nSat++
			if o.Model == "" {
				mtext := s.text(o, true, nil)
				mout, _ := runSolver(sp, mtext, timeoutS, seed, time.Duration(timeoutS+20)*time.Second)
				o.Model = mout
				o.Solver = sp.name
			}
			if !all {
				break
			}
		}
		_ = i
	}
	o.TimeMS = time.Since(t0).Milliseconds()
	o.Output = "batch(" + solvers[0].name + "): " + batchRes + "; " + strings.Join(outs, "; ")
	switch {
	case nSat > 0 && nUnsat > 0:
		o.Status = "failed"
		o.Note = "solver disagreement"
	case nSat > 0:
		o.Status = "failed"
	case nUnsat > 0:
		o.Status = "proved"
	default:
		o.Status = "unknown"
	}
}

// checkSat runs one satisfiability query (vacuity guards).
func checkSat(text string, timeoutS int) string {
	for _, sp := range solvers[:2] {
		out, _ := runSolver(sp, text, timeoutS, 0, time.Duration(timeoutS+10)*time.Second)
		fl := firstLine(out)
		if fl == "sat" || fl == "unsat" {
			return fl
		}
	}
	return "unknown"
}

func sortedKeys[V any](m map[string]V) []string {
	ks := make([]string, 0, len(m))
	for k := range m {
		ks = append(ks, k)
	}
	sort.Strings(ks)
	return ks
}
