package main

import (
	"encoding/json"
	"fmt"
	"go/ast"
	"go/token"
	"go/types"
	"os"
	"path/filepath"
	"sort"
	"strconv"
	"strings"
	"sync"
	"time"

	"golang.org/x/tools/go/packages"
	"golang.org/x/tools/go/ssa"
	"golang.org/x/tools/go/ssa/ssautil"
)

var repoRoot = func() string {
	if r := os.Getenv("GCV_REPO"); r != "" {
		return r // development only: a scratch worktree; registered commands never set this
	}
	return "/repo"
}()

var verifRoot = func() string {
	if r := os.Getenv("GCV_VERIF"); r != "" {
		return r // development only: a scratch copy of /verif's contracts, checks and corpus; registered commands never set this
	}
	return "/verif"
}()

type Engine struct {
	localMu    sync.Mutex
	localsUsed map[string]map[string]localHint // names of locals the contracts used in this run (gcv expect writes them out)
	localHints map[string]map[string]localHint // /verif/checks/locals.json
	dir         string // module directory
	fset        *token.FileSet
	prog        *ssa.Program
	pkgs        []*packages.Package
	contracts   map[string]*Contract
	funcs       map[string]*ssa.Function
	voc         *Vocab
	importAlias map[string]map[string]*types.Package
	allPkgs     []*types.Package
	pkgByPath   map[string]*types.Package

	mu            sync.Mutex
	tidTypes      map[string]types.Type
	ifacePreds    map[string]types.Type
	ifaceNames    map[string]bool
	extraUFuns    map[string]int
	footprints    map[*ssa.Function]map[string]string
	extraUPreds   map[string]int
	siteAssumes   map[string]string
	loadErrs      []string
	contractFiles []string
}

func (e *Engine) noteIface(pred string, t types.Type) {
	e.mu.Lock()
	e.ifacePreds[pred] = t
	e.mu.Unlock()
}
func (e *Engine) noteIfaceName(pred string) {
	e.mu.Lock()
	e.ifaceNames[pred] = true
	e.mu.Unlock()
}
func (e *Engine) noteUFun(n string, ar int) {
	e.mu.Lock()
	e.extraUFuns[n] = ar
	if n == "elemlen" {
		e.extraUFuns["elemref"] = 2
	}
	e.mu.Unlock()
}
func (e *Engine) noteUPred(n string, ar int) {
	e.mu.Lock()
	e.extraUPreds[n] = ar
	e.mu.Unlock()
}
func (e *Engine) noteSiteAssume(fn, site string, c Clause) {
	e.mu.Lock()
	e.siteAssumes[fn+"#call["+site+"]:"+c.Label] = c.Src
	e.mu.Unlock()
}

func (e *Engine) pkgOfKey(key string) *types.Package {
	// key: "path.Func" or "(*path.T).M" or "(path.T).M"
	k := strings.TrimPrefix(key, "(")
	k = strings.TrimPrefix(k, "*")
	if i := strings.Index(k, ")"); i >= 0 {
		k = k[:i]
	}
	// strip last .Name
	if i := strings.LastIndex(k, "."); i >= 0 {
		k = k[:i]
	}
	// closures: path.Func$1 handled since $ stays in the name part
	return e.pkgByPath[k]
}

// loadEngine loads one module of the repository (dir) from the current working
// tree, builds naive-form SSA for its packages and reads every contract file.
func loadEngine(dir string, overlay map[string][]byte) (*Engine, error) {
	e := &Engine{dir: dir, contracts: map[string]*Contract{}, funcs: map[string]*ssa.Function{}, voc: newVocab(),
		importAlias: map[string]map[string]*types.Package{}, pkgByPath: map[string]*types.Package{},
		tidTypes: map[string]types.Type{}, ifacePreds: map[string]types.Type{}, ifaceNames: map[string]bool{},
		extraUFuns: map[string]int{}, footprints: map[*ssa.Function]map[string]string{}, extraUPreds: map[string]int{}, siteAssumes: map[string]string{}}
	e.fset = token.NewFileSet()
	if data, err := os.ReadFile(filepath.Join(verifRoot, "checks", "locals", "hints.json")); err == nil {
		json.Unmarshal(data, &e.localHints)
	}
	cfg := &packages.Config{
		Mode:    packages.LoadAllSyntax,
		Dir:     dir,
		Fset:    e.fset,
		Overlay: overlay,
		Env:     append(os.Environ(), "GOFLAGS=-mod=mod", "GOPROXY=off", "GOSUMDB=off", "GOTOOLCHAIN=local"),
	}
	pkgs, err := packages.Load(cfg, "./...")
	if err != nil {
		return nil, err
	}
	for _, p := range pkgs {
		for _, pe := range p.Errors {
			e.loadErrs = append(e.loadErrs, pe.Error())
		}
	}
	if len(e.loadErrs) > 0 {
		return nil, fmt.Errorf("package load errors: %s", strings.Join(e.loadErrs, "; "))
	}
	e.pkgs = pkgs
	prog, spkgs := ssautil.AllPackages(pkgs, ssa.NaiveForm|ssa.GlobalDebug)
	e.prog = prog
	for _, sp := range spkgs {
		if sp != nil {
			sp.Build()
		}
	}
	packages.Visit(pkgs, nil, func(p *packages.Package) {
		if p.Types != nil {
			e.allPkgs = append(e.allPkgs, p.Types)
			e.pkgByPath[p.Types.Path()] = p.Types
		}
	})
	sort.Slice(e.allPkgs, func(i, j int) bool { return e.allPkgs[i].Path() < e.allPkgs[j].Path() })
	// import aliases per package (from syntax)
	for _, p := range pkgs {
		al := map[string]*types.Package{}
		for _, f := range p.Syntax {
			for _, is := range f.Imports {
				path, _ := strconv.Unquote(is.Path.Value)
				ip := p.Imports[path]
				if ip == nil || ip.Types == nil {
					continue
				}
				name := ip.Types.Name()
				if is.Name != nil {
					name = is.Name.Name
				}
				al[name] = ip.Types
			}
		}
		e.importAlias[p.PkgPath] = al
	}
	// functions of the module's packages
	for _, sp := range spkgs {
		if sp == nil {
			continue
		}
		for _, m := range sp.Members {
			switch x := m.(type) {
			case *ssa.Function:
				e.addFunc(x)
			case *ssa.Type:
				for _, t := range []types.Type{x.Type(), types.NewPointer(x.Type())} {
					ms := prog.MethodSets.MethodSet(t)
					for i := 0; i < ms.Len(); i++ {
						if f := prog.MethodValue(ms.At(i)); f != nil && f.Synthetic == "" {
							e.addFunc(f)
						}
					}
				}
			}
		}
	}
	// vocabulary and external contracts
	specs, _ := filepath.Glob(filepath.Join(verifRoot, "contracts", "*.spec"))
	ext, _ := filepath.Glob(filepath.Join(verifRoot, "contracts", "external", "*.spec"))
	sort.Strings(specs)
	sort.Strings(ext)
	if filepath.Base(dir) == "cmd" {
		// module cmd builds against the released go-car/v2 from the module cache: the few assumed contracts on that
		// API live apart, so that they can never shadow (or stand in for) a contract on /repo/v2's own code
		extCmd, _ := filepath.Glob(filepath.Join(verifRoot, "contracts", "external_cmd", "*.spec"))
		sort.Strings(extCmd)
		ext = append(ext, extCmd...)
	}
	for _, f := range append(specs, ext...) {
		cs, err := readContractFile(f, "", e.voc)
		if err != nil {
			return nil, err
		}
		for _, c := range cs {
			c.Trusted = true
			e.contracts[c.Key] = c
		}
		e.contractFiles = append(e.contractFiles, f)
	}
	// contract files inside the repository packages (build tag verif; comment-only)
	for _, p := range pkgs {
		if len(p.GoFiles) == 0 {
			continue
		}
		cf := filepath.Join(filepath.Dir(p.GoFiles[0]), "zz_contracts_verif.go")
		if _, err := os.Stat(cf); err != nil {
			continue
		}
		cs, err := readContractFileOv(cf, p.PkgPath, e.voc, overlay)
		if err != nil {
			return nil, err
		}
		for _, c := range cs {
			var reg func(c *Contract)
			reg = func(c *Contract) {
				e.contracts[c.Key] = c
				for _, cc := range c.Closures {
					reg(cc)
				}
			}
			reg(c)
		}
		e.contractFiles = append(e.contractFiles, cf)
	}
	return e, nil
}

func (e *Engine) addFunc(f *ssa.Function) {
	if f.Pkg == nil || len(f.Blocks) == 0 {
		return
	}
	e.funcs[fnKey(f)] = f
	for _, a := range f.AnonFuncs {
		e.addAnon(a)
	}
}

func (e *Engine) addAnon(f *ssa.Function) {
	e.funcs[fnKey(f)] = f
	for _, a := range f.AnonFuncs {
		e.addAnon(a)
	}
}

// ---------------------------------------------------------------------------

type FuncResult struct {
	Key        string
	Name       string // short display name
	Obs        []*Obligation
	Errs       []string
	Warns      []string
	Unknown    map[string]int
	Used       map[string]bool
	Abstracted map[string]int
	Vacuity    string
	Blocks     int
	BlocksAll  int
	SolveMS    int64
	GenMS      int64
	Script     *Script
	Assumes    []string
	Auto       *AutoReplay
	Sites      []string // call sites by name with their source line (verify -sites)
}

func displayName(key string) string {
	r := strings.NewReplacer("github.com/ipld/go-car/v2/", "v2/", "github.com/ipld/go-car/v2.", "v2.", "github.com/ipld/go-car/", "v1/", "github.com/ipld/go-car.", "v1.")
	return r.Replace(key)
}

func (e *Engine) newExec(fn *ssa.Function, quiet bool) *FnExec {
	fe := &FnExec{eng: e, script: &Script{}, regs: map[ssa.Value]Val{}, heapSort: map[string]string{}, quiet: quiet,
		sentinel: map[*ssa.Global]int{}, globals: map[*ssa.Global]Val{}, tids: map[string]int{}, unknown: map[string]int{},
		used: map[string]bool{}, abstracted: map[string]int{}, phiEdges: map[*ssa.BasicBlock][]phiEdge{}, ifaceType: map[Term]types.Type{}, owned: map[Term]bool{}, boxed: map[Term]Val{}, guardPtr: map[ssa.Value]*guardRec{}, elemCache: map[string]Val{}, guardedVals: map[Term]*guardRec{}, boxType: map[Term]types.Type{}, wraps: map[Term]Val{}, cbInfo: map[*ssa.Function]*cbState{}}
	if fn.Pkg != nil {
		fe.pkg = fn.Pkg.Pkg
	} else if fn.Parent() != nil {
		p := fn.Parent()
		for p.Parent() != nil {
			p = p.Parent()
		}
		if p.Pkg != nil {
			fe.pkg = p.Pkg.Pkg
		}
	}
	fe.hw = "HW"
	fe.script.Decls = append(fe.script.Decls, "(declare-const HW Int)")
	fe.assume("(< 1000 HW)", "heap watermark above sentinel ids")
	return fe
}

func (e *Engine) extraPrelude(fe *FnExec) string {
	var b, b2 strings.Builder
	e.mu.Lock()
	defer e.mu.Unlock()
	declared := map[string]bool{}
	decl := func(name string, ar int, sort string) {
		if declared[name] {
			return
		}
		declared[name] = true
		fmt.Fprintf(&b, "(declare-fun %s (%s) %s)\n", sym(name), strings.TrimSpace(strings.Repeat("Int ", ar)), sort)
	}
	for _, n := range sortedKeys(e.voc.UFuns) {
		decl(n, e.voc.UFuns[n], "Int")
	}
	for _, n := range sortedKeys(e.voc.UPreds) {
		decl(n, e.voc.UPreds[n], "Bool")
	}
	for _, n := range sortedKeys(e.extraUFuns) {
		decl(n, e.extraUFuns[n], "Int")
	}
	for _, n := range sortedKeys(e.extraUPreds) {
		decl(n, e.extraUPreds[n], "Bool")
	}
	for _, g := range e.voc.Ghost {
		if g.Key != "" {
			decl(g.Key, 1, "Int")
		}
	}
	for _, d := range e.voc.Defs {
		b.WriteString(d)
		b.WriteByte('\n')
	}
	// interface predicates and implementation facts for the concrete types seen
	preds := map[string]types.Type{}
	for p, t := range e.ifacePreds {
		preds[p] = t
	}
	for p := range e.ifaceNames {
		if _, ok := preds[p]; !ok {
			preds[p] = e.lookupType(strings.TrimPrefix(p, "impl."))
		}
	}
	for _, p := range sortedKeys(preds) {
		decl(p, 1, "Bool")
		it := preds[p]
		if it == nil {
			continue
		}
		iface, ok := it.Underlying().(*types.Interface)
		if !ok {
			continue
		}
		for _, tn := range sortedKeys(fe.tids) {
			ct := e.tidTypes[tn]
			if ct == nil {
				ct = e.lookupType(tn)
			}
			if ct == nil {
				continue
			}
			v := "false"
			if types.Implements(ct, iface) {
				v = "true"
			}
			fmt.Fprintf(&b, "(assert (= (%s %d) %s)) ; %s implements %s\n", sym(p), fe.tids[tn], v, tn, p)
		}
	}
	// interface subtyping between the interface predicates in play
	pk := sortedKeys(preds)
	for _, a := range pk {
		for _, b := range pk {
			if a == b || preds[a] == nil || preds[b] == nil {
				continue
			}
			ia, ok1 := preds[a].Underlying().(*types.Interface)
			ib, ok2 := preds[b].Underlying().(*types.Interface)
			if ok1 && ok2 && types.Implements(ia, ib) {
				fmt.Fprintf(&b2, "(assert (forall ((t Int)) (=> (%s t) (%s t)))) ; %s is a sub-interface of %s\n", sym(a), sym(b), a, b)
			}
		}
	}
	b.WriteString(b2.String())
	for _, ax := range e.voc.Axioms {
		fmt.Fprintf(&b, "(assert %s) ; axiom %s\n", ax.SMT, ax.Name)
	}
	return b.String()
}

// lookupType resolves "pkg.Name" or "*pkg.Name" (typeName form) to a type.
func (e *Engine) lookupType(name string) types.Type {
	ptr := strings.HasPrefix(name, "*")
	name = strings.TrimPrefix(name, "*")
	i := strings.LastIndex(name, ".")
	if i < 0 {
		return nil
	}
	pk, tn := name[:i], name[i+1:]
	for _, p := range e.allPkgs {
		if shortPkg(p) == pk || p.Path() == pk {
			if o := p.Scope().Lookup(tn); o != nil {
				if ptr {
					return types.NewPointer(o.Type())
				}
				return o.Type()
			}
		}
	}
	return nil
}

// verifyFunc generates and discharges the obligations of one function.
func (e *Engine) verifyFunc(key string, timeoutS, seed int, allSolvers bool, solve bool) *FuncResult {
	res := &FuncResult{Key: key, Name: displayName(key)}
	fn := e.funcs[key]
	if fn == nil {
		res.Errs = append(res.Errs, "function not found in the current tree: "+key)
		return res
	}
	con := e.contracts[key]
	if con != nil && con.BitVector {
		return e.verifyBV(key, con, timeoutS, seed, allSolvers, solve)
	}
	t0 := time.Now()
	// discovery of loop havoc sets
	prev := map[int]*loopInfo{}
	for round := 0; round < 8; round++ {
		fe := e.newExec(fn, true)
		fr := fe.newFrame(fn, con, res.Name)
		for _, li := range fr.loops {
			if p := prev[li.ord]; p != nil {
				li.havocCells, li.havocHeap, li.havocPaths = p.havocCells, p.havocHeap, p.havocPaths
			}
		}
		fe.top = fr
		fe.setupEntry(fr)
		fe.runFunction(fr, fr.entry, fe.paramVals(fr), nil)
		for _, li := range fr.loops {
			prev[li.ord] = li
		}
		if !fe.changed {
			break
		}
	}
	fe := e.newExec(fn, false)
	fr := fe.newFrame(fn, con, res.Name)
	for _, li := range fr.loops {
		if p := prev[li.ord]; p != nil {
			li.havocCells, li.havocHeap, li.havocPaths = p.havocCells, p.havocHeap, p.havocPaths
		}
	}
	fe.top = fr
	fe.setupEntry(fr)
	res.Auto = fe.buildAutoReplay(fr)
	fe.runFunction(fr, fr.entry, fe.paramVals(fr), nil)
	res.GenMS = time.Since(t0).Milliseconds()
	for site, ci := range fr.callIdx {
		res.Sites = append(res.Sites, fmt.Sprintf("%5d  call[%s]", e.fset.Position(ci.Pos()).Line, site))
	}
	sort.Strings(res.Sites)
	if con != nil {
		// every site a contract is keyed to must exist in the current code: a clause keyed to a vanished
		// site fails (closed) as that clause's obligation
		for _, site := range sortedKeys(con.Calls) {
			if _, ok := fr.callIdx[site]; !ok && !fr.pseudoSites[site] {
				for _, a := range con.Calls[site].Asserts {
					fe.clauseErr = "call site " + site + " does not exist in the current code"
					fe.oblige(fr, fmt.Sprintf("call[%s].assert:%s", site, a.Label), a.Props, "true", "false", fn.Pos(), a.Src)
				}
			}
		}
		for _, g := range con.Ghosts {
			site := strings.TrimPrefix(g.After, "before:")
			if site != "return" && site != "entry" && !strings.HasPrefix(site, "go[") {
				ok := false
				for cs := range fr.callIdx {
					if ghostSiteMatches(site, cs) {
						ok = true
					}
				}
				if !ok {
					fe.warns = append(fe.warns, fmt.Sprintf("%s: ghost update refers to call site %s which does not exist", res.Name, site))
				}
			}
		}
		for k, ls := range con.Loops {
			found := false
			for _, li := range fr.loops {
				if li.ord == k {
					found = true
				}
			}
			if !found {
				for _, inv := range ls.Invs {
					fe.clauseErr = fmt.Sprintf("loop[%d] does not exist in the current code", k)
					fe.oblige(fr, fmt.Sprintf("loop[%d].inv:%s:init", k, inv.Label), inv.Props, "true", "false", fn.Pos(), inv.Src)
				}
			}
		}
	}
	if con != nil && (len(con.Modifies) > 0 || len(con.Ensures) > 0) && !con.Trusted {
		// a declared frame can only be justified if everything the function calls is itself under contract:
		// a callee without one may change state outside the frame
		var unk []string
		for _, k := range sortedKeys(fe.unknown) {
			if !benignUnknown(k) {
				unk = append(unk, shortKey(k))
			}
		}
		goal := "true"
		note := "every callee of a function whose contract callers rely on (frame and postconditions) is under contract"
		if len(unk) > 0 {
			goal = "false"
			note = "callees without contract in a function whose contract callers rely on: " + strings.Join(unk, ", ")
		}
		fe.oblige(fr, "frame:callees_under_contract", frameProps(con), "true", goal, fn.Pos(), note)
	}
	res.Errs = append(res.Errs, fe.errs...)
	res.Warns = append(res.Warns, fe.warns...)
	res.Unknown = fe.unknown
	res.Used = fe.used
	res.Abstracted = fe.abstracted
	res.Blocks = fe.blocksReached
	res.BlocksAll = len(fn.Blocks)
	fe.script.Extra = e.extraPrelude(fe)
	res.Script = fe.script
	res.Obs = fe.script.Obs
	if con != nil {
		for _, a := range con.Assumes {
			res.Assumes = append(res.Assumes, res.Name+": assume "+a.Label+": "+a.Src)
		}
	}
	if !solve {
		return res
	}
	// vacuity: some return must be reachable under all assumptions
	var rpcs []Term
	for _, r := range fr.rets {
		rpcs = append(rpcs, r.pc)
	}
	if len(rpcs) > 0 {
		probe := &Obligation{PC: tOr(rpcs...), Goal: "false", NAsm: len(fe.script.Asms)}
		txt := fe.script.text(probe, false, nil)
		if d := os.Getenv("GCV_DUMP_VACUITY"); d != "" {
			os.WriteFile(d, []byte(txt), 0o644)
		}
		res.Vacuity = checkSat(txt, timeoutS)
		if res.Vacuity == "unsat" {
			res.Errs = append(res.Errs, "vacuity: the assumptions of "+res.Name+" are contradictory (no return reachable)")
		}
	} else {
		res.Vacuity = "no-return"
	}
	t1 := time.Now()
	if se := fe.script.solveAll(timeoutS, seed, allSolvers); se != "" {
		res.Errs = append(res.Errs, "solver error: "+se)
	}
	fe.script.coverAll(timeoutS, seed)
	res.SolveMS = time.Since(t1).Milliseconds()
	return res
}

// benignUnknown: callees that cannot touch tracked state (pure accessors of dependencies, error constructors).
func benignUnknown(key string) bool {
	for _, p := range []string{"go-cid.", "go-multihash.", "go-block-format.", "go-varint.", "fmt.", "errors.", "math.", "bytes.", "strings.", "strconv.", "sort.", "context.", "unsafe.", "dynamic:", "multicodec.", "encoding/binary.", "GoLLRB", "sync.Pool", "io.Discard"} {
		if strings.Contains(key, p) {
			return true
		}
	}
	return false
}

// frameProps: the property tags of a contract's postconditions (the frame serves all of them).
func frameProps(con *Contract) []string {
	seen := map[string]bool{}
	var out []string
	for _, c := range con.Ensures {
		for _, p := range c.Props {
			if !seen[p] {
				seen[p] = true
				out = append(out, p)
			}
		}
	}
	sort.Strings(out)
	return out
}

func (fe *FnExec) paramVals(fr *frame) []Val {
	var out []Val
	for _, p := range fr.fn.Params {
		out = append(out, fe.regs[p])
	}
	return out
}

// setupEntry creates parameter values, the entry state and assumes the function's requires.
func (fe *FnExec) setupEntry(fr *frame) {
	fn := fr.fn
	st := &State{pc: "true", cells: map[*ssa.Alloc]Val{}, heap: map[string]Term{}}
	sig := fn.Signature
	for i, p := range fn.Params {
		v := fe.freshVal(p.Type(), p.Name())
		fe.regs[p] = v
		fr.binds[p.Name()] = v
		if i == 0 && sig.Recv() != nil {
			fr.binds["recv"] = v
			if pv, ok := v.(PtrV); ok {
				fe.assume(sx("<", "0", pv.Base), "receiver is not nil")
				fe.assume(tEq(sx("dyn", pv.Base), tInt(int64(fe.tid(p.Type())))), "dynamic type of the receiver")
			}
		}
		switch x := v.(type) {
		case PtrV:
			fe.assume(sx("<=", x.Base, "HW"), "parameter object existed at entry")
			fe.assume(sx("<=", sx("cell", x.Base), "HW"), "the cursor of a parameter existed at entry")
			if obj, ok := fe.objOf(x); ok {
				fe.assumeTypeInv(st, obj, "entry")
			}
		case RefV:
			fe.assume(sx("<=", x.T, "HW"), "parameter object existed at entry")
			if _, isI := p.Type().Underlying().(*types.Interface); isI {
				fe.assume(sx("<=", sx("cell", x.T), "HW"), "the cursor of a parameter existed at entry")
			}
		}
	}
	for _, fv := range fn.FreeVars {
		pt := fv.Type().(*types.Pointer).Elem()
		p := PtrV{Base: fe.declareOnce("cap."+fv.Name(), "Int"), Prefix: "cap." + fv.Name(), Pointee: pt}
		fe.regs[fv] = p
		// what a closure captured existed before the closure ran
		switch cv := fe.load(st, p).(type) {
		case PtrV:
			if cv.Cell == nil && cv.Base != "0" {
				fe.assume(sx("<=", cv.Base, "HW"), "captured object existed at entry")
			}
		case RefV:
			fe.assume(sx("<=", cv.T, "HW"), "captured object existed at entry")
		}
	}
	if isGoTarget(fn) {
		// a new goroutine holds no lock, unless its contract says the spawner hands one over
		handed := false
		if fr.con != nil {
			for _, rq := range fr.con.Requires {
				if strings.Contains(rq.Src, "held(") {
					handed = true
				}
			}
		}
		if !handed {
			if _, ok := fe.eng.voc.Ghost["held"]; ok {
				fe.assume(tEq(fe.heapGet(st, "ghost.held", "Int"), "((as const (Array Int Int)) 0)"), "a new goroutine holds no lock")
			}
		}
	}
	fr.entry = st
	if fr.con != nil {
		// ghost at entry: initial value of a scratch ghost (a counter the contract keeps)
		for _, g := range fr.con.Ghosts {
			if g.After == "entry" {
				ctx := fe.ctxFor(fr, st)
				fe.assignLvalue(ctx, st, g.LHS, ctx.eval(g.RHS.E))
			}
		}
		for _, rq := range fr.con.Requires {
			ctx := fe.ctxFor(fr, st)
			fe.assume(ctx.evalBool(rq.X), "requires "+rq.Label)
		}
		for _, a := range fr.con.Assumes {
			ctx := fe.ctxFor(fr, st)
			fe.assume(ctx.evalBool(a.X), "assume "+a.Label)
		}
		for _, inv := range fr.con.CbInvs {
			ctx := fe.ctxFor(fr, st)
			fe.assume(ctx.evalBool(inv.X), "invariant "+inv.Label+" holds whenever the callee calls the literal")
		}
	}
	fr.entry = st.clone()
}

// isGoTarget reports whether fn is a function literal started by a go statement of its parent.
func isGoTarget(fn *ssa.Function) bool {
	if fn.Parent() == nil {
		return false
	}
	for _, b := range fn.Parent().Blocks {
		for _, in := range b.Instrs {
			g, ok := in.(*ssa.Go)
			if !ok {
				continue
			}
			switch v := g.Call.Value.(type) {
			case *ssa.MakeClosure:
				if v.Fn == fn {
					return true
				}
			case *ssa.Function:
				if v == fn {
					return true
				}
			}
		}
	}
	return false
}

// elemFacts: called when an element of a parameter slice is loaded.
func (fe *FnExec) elemFacts(fr *frame, st *State, p PtrV, loaded Val) {
	if fr == nil || fr.con == nil || p.ElemOf == nil {
		return
	}
	for _, ef := range fr.con.ElemFacts {
		sv, ok := fr.binds[ef.Slice].(SliceV)
		if !ok || sv.Ref != p.ElemOf.Ref {
			continue
		}
		ctx := fe.ctxFor(fr, st)
		ctx.binds[ef.Idx] = IntV{p.Idx}
		ctx.binds[ef.Val] = loaded
		fe.assume(tImp(st.pc, ctx.evalBool(ef.X)), "element fact of "+ef.Slice)
	}
}

var _ = ast.NewIdent

// ifaceSig finds the signature of an interface method given its contract key "(pkg.Iface).Method".
func (e *Engine) ifaceSig(key string) *types.Signature {
	k := strings.TrimPrefix(key, "(")
	i := strings.Index(k, ").")
	if i < 0 {
		return nil
	}
	tn, mn := k[:i], k[i+2:]
	j := strings.LastIndex(tn, ".")
	if j < 0 {
		return nil
	}
	pkg := e.pkgByPath[tn[:j]]
	if pkg == nil {
		return nil
	}
	obj := pkg.Scope().Lookup(tn[j+1:])
	if obj == nil {
		return nil
	}
	iface, ok := obj.Type().Underlying().(*types.Interface)
	if !ok {
		return nil
	}
	for i := 0; i < iface.NumMethods(); i++ {
		if iface.Method(i).Name() == mn {
			return iface.Method(i).Type().(*types.Signature)
		}
	}
	return nil
}

// globalLitLen: the number of elements of the composite literal a package-level slice variable is initialised with.
func (e *Engine) globalLitLen(g *ssa.Global) (int, bool) {
	if g.Pkg == nil {
		return 0, false
	}
	var found int
	ok := false
	packages.Visit(e.pkgs, nil, func(p *packages.Package) {
		if ok || p.Types != g.Pkg.Pkg {
			return
		}
		for _, f := range p.Syntax {
			for _, d := range f.Decls {
				gd, isG := d.(*ast.GenDecl)
				if !isG || gd.Tok != token.VAR {
					continue
				}
				for _, sp := range gd.Specs {
					vs := sp.(*ast.ValueSpec)
					for i, n := range vs.Names {
						if n.Name == g.Name() && i < len(vs.Values) {
							if cl, isC := vs.Values[i].(*ast.CompositeLit); isC {
								found, ok = len(cl.Elts), true
							}
						}
					}
				}
			}
		}
	})
	return found, ok
}
