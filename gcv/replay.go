package main

// Replay of refuted obligations against the real code (DESIGN.md §3.5).
//
// A replay driver is an in-package Go test kept under /verif/replays; it is
// injected with `go test -overlay` (nothing is written under /repo), gets the
// solver's model through GCV_* environment variables, runs the REAL function
// and fails with a line containing REPLAY-VIOLATION when the violated clause
// is observed concretely.

import (
	"bytes"
	"context"
	"encoding/json"
	"fmt"
	"os"
	"os/exec"
	"path/filepath"
	"regexp"
	"strings"
	"time"
)

type replayEntry struct {
	Mod  string `json:"mod"`
	Pkg  string `json:"pkg"`
	File string `json:"file"`
	Test string `json:"test"`
}

func loadReplayIndex() map[string]replayEntry {
	data, err := os.ReadFile(filepath.Join(verifRoot, "replays", "index.json"))
	if err != nil {
		return nil
	}
	m := map[string]replayEntry{}
	json.Unmarshal(data, &m)
	return m
}

var reModelLine = regexp.MustCompile(`^\|?([^|= ]+)\|? = (.*)$`)
var reSuffix = regexp.MustCompile(`!\d+$`)

// modelEnv turns the scalar part of a model into GCV_<name>=<value> variables.
func modelEnv(model string) []string {
	var env []string
	seen := map[string]bool{}
	for _, ln := range strings.Split(filterModel(model), "\n") {
		m := reModelLine.FindStringSubmatch(strings.TrimSpace(ln))
		if m == nil {
			continue
		}
		name := reSuffix.ReplaceAllString(m[1], "")
		val := strings.TrimSpace(m[2])
		if strings.HasPrefix(val, "(- ") {
			val = "-" + strings.TrimSuffix(strings.TrimPrefix(val, "(- "), ")")
		}
		if strings.ContainsAny(val, "( ") {
			continue
		}
		key := "GCV_" + regexp.MustCompile(`[^A-Za-z0-9_]`).ReplaceAllString(name, "_")
		if seen[key] {
			continue
		}
		seen[key] = true
		env = append(env, key+"="+val)
	}
	return env
}

func runReplay(ent replayEntry, env []string) (violated bool, out string) {
	return runReplayFile(ent, filepath.Join(verifRoot, "replays", ent.File), env)
}

// runReplayFile injects file as an in-package test of ent's package and runs ent.Test.
func runReplayFile(ent replayEntry, file string, env []string) (violated bool, out string) {
	tmp, err := os.MkdirTemp("", "gcv-replay-")
	if err != nil {
		return false, err.Error()
	}
	defer os.RemoveAll(tmp)
	modDir := repoRoot
	if ent.Mod != "." && ent.Mod != "" {
		modDir = filepath.Join(repoRoot, ent.Mod)
	}
	pkgDir := filepath.Join(modDir, ent.Pkg)
	ov := map[string]map[string]string{"Replace": {filepath.Join(pkgDir, "zz_gcv_replay_test.go"): file}}
	data, _ := json.Marshal(ov)
	ovf := filepath.Join(tmp, "overlay.json")
	os.WriteFile(ovf, data, 0o644)
	ctx, cancel := context.WithTimeout(context.Background(), 150*time.Second)
	defer cancel()
	rel := "./" + ent.Pkg
	cmd := exec.CommandContext(ctx, "go", "test", "-mod=mod", "-overlay", ovf, "-vet=off", "-count=1", "-timeout", "60s", "-run", "^"+ent.Test+"$", rel)
	cmd.Dir = modDir
	cmd.Env = append(append(os.Environ(), "GOFLAGS=-mod=mod", "GOPROXY=off", "GOSUMDB=off", "GOTOOLCHAIN=local"), env...)
	var buf bytes.Buffer
	cmd.Stdout = &buf
	cmd.Stderr = &buf
	cmd.Run()
	out = buf.String()
	return strings.Contains(out, "REPLAY-VIOLATION"), out
}

// tryReplay attempts to reproduce a refuted obligation on the real code.
func tryReplay(cr *checkRun, a *AggOb, path string) (bool, string) {
	idx := loadReplayIndex()
	ent, ok := idx[a.Name]
	if !ok {
		if v, info := autoReplay(cr, a, 10, 0); v || info != "" {
			return v, info
		}
		return false, "no replay driver registered for this obligation, and the function is not a value function the generated driver can call"
	}
	var env []string
	for _, p := range a.Parts {
		if p.Status == "failed" && p.Model != "" {
			env = modelEnv(p.Model)
			break
		}
	}
	v, out := runReplay(ent, env)
	if len(out) > 4000 {
		out = out[:4000]
	}
	info := fmt.Sprintf("driver %s (%s) with model %v:\n%s", ent.File, ent.Test, env, out)
	return v, info
}

// gcv replay <file>: re-run the replay recorded in a violation file.
func cmdReplay(args []string) int {
	if len(args) < 1 {
		fmt.Fprintln(os.Stderr, "usage: gcv replay <violation.json>")
		return 2
	}
	data, err := os.ReadFile(args[0])
	if err != nil {
		fmt.Fprintln(os.Stderr, err)
		return 2
	}
	var rp map[string]interface{}
	json.Unmarshal(data, &rp)
	name, _ := rp["obligation"].(string)
	fmt.Printf("obligation: %s\nreason: %v\n", name, rp["reason"])
	idx := loadReplayIndex()
	ent, ok := idx[name]
	if !ok {
		fmt.Println("no replay driver for this obligation; the file carries the solver output")
		fmt.Println(string(data))
		return 1
	}
	var env []string
	if parts, ok := rp["failed_parts"].([]interface{}); ok {
		for _, p := range parts {
			if pm, ok := p.(map[string]interface{}); ok {
				if m, _ := pm["model"].(string); m != "" {
					for _, ln := range strings.Split(m, "\n") {
						if mm := reModelLine.FindStringSubmatch(strings.TrimSpace(ln)); mm != nil {
							key := "GCV_" + regexp.MustCompile(`[^A-Za-z0-9_]`).ReplaceAllString(reSuffix.ReplaceAllString(mm[1], ""), "_")
							env = append(env, key+"="+strings.TrimSpace(mm[2]))
						}
					}
					break
				}
			}
		}
	}
	v, out := runReplay(ent, env)
	fmt.Println(out)
	if v {
		fmt.Println("replay: violation reproduced on the real code")
		return 1
	}
	fmt.Println("replay: not reproduced")
	return 0
}
