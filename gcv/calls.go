package main

import (
	"os"
	"fmt"
	"go/types"
	"strings"

	"golang.org/x/tools/go/ssa"
)

// calleeKey returns the canonical contract key of the callee, or "" for dynamic calls.
func calleeKey(cc *ssa.CallCommon) (string, *types.Signature) {
	if cc.IsInvoke() {
		return cc.Method.FullName(), cc.Method.Type().(*types.Signature)
	}
	if f := cc.StaticCallee(); f != nil {
		return fnKey(f), f.Signature
	}
	if sig, ok := cc.Value.Type().Underlying().(*types.Signature); ok {
		return "", sig
	}
	return "", nil
}

func fnKey(f *ssa.Function) string {
	if f.Object() != nil {
		return f.Object().(*types.Func).FullName()
	}
	if f.Parent() != nil {
		// anonymous: Parent$k
		return fnKey(f.Parent()) + strings.TrimPrefix(f.Name(), f.Parent().Name())
	}
	return f.String()
}

func (fe *FnExec) doCall(fr *frame, st *State, in ssa.Instruction, cc *ssa.CallCommon, rt types.Type) Val {
	var args []Val
	for _, a := range cc.Args {
		args = append(args, fe.val(a))
	}
	return fe.doCallWith(fr, st, in, cc, rt, fe.val(cc.Value), args)
}

// doCallWith executes a call (also used for deferred calls, whose function
// value and arguments were evaluated at the defer statement).
func (fe *FnExec) doCallWith(fr *frame, st *State, in ssa.Instruction, cc *ssa.CallCommon, rt types.Type, fnv Val, args []Val) Val {
	fe.curInstr = in
	fe.memVersion++
	defer func() { fe.memVersion++ }()
	if rt == nil {
		if sig, ok := cc.Value.Type().Underlying().(*types.Signature); ok {
			rt = resultType(sig)
		} else if cc.IsInvoke() {
			rt = resultType(cc.Method.Type().(*types.Signature))
		}
	}
	if b, ok := cc.Value.(*ssa.Builtin); ok {
		res := fe.doBuiltin(fr, st, in, b, cc, args, rt)
		if fr.con != nil {
			// ghost updates keyed to a builtin (close, append, copy ...)
			for _, g := range fr.con.Ghosts {
				if ghostSiteMatches(g.After, fr.ords[in]) {
					ctx := fe.ctxFor(fr, st)
					fe.assignLvalue(ctx, st, g.LHS, ctx.eval(g.RHS.E))
				}
			}
		}
		return res
	}
	key, sig := calleeKey(cc)
	site := fr.ords[in]
	if cc.IsInvoke() {
		if rv, ok := fnv.(RefV); ok && fe.okRefs[rv.T] {
			// a method call on the value of a failed `v, ok := x.(T)` is a nil dereference
			fe.oblige(fr, "nilcall["+site+"]", []string{"C09"}, st.pc, tNot(tEq(rv.T, "0")), in.Pos(), "method call on an interface value that is nil when the type assertion failed")
		}
	}
	if fr.con != nil {
		for _, g := range fr.con.Ghosts {
			if g.After == "before:"+site {
				ctx := fe.ctxFor(fr, st)
				fe.assignLvalue(ctx, st, g.LHS, ctx.eval(g.RHS.E))
			}
		}
	}
	// full argument vector: receiver first
	var full []Val
	var ftypes []types.Type
	if cc.IsInvoke() {
		full = append([]Val{fnv}, args...)
		ftypes = append(ftypes, cc.Value.Type())
	} else {
		full = args
	}
	for _, a := range cc.Args {
		ftypes = append(ftypes, a.Type())
	}
	fe.curArgTypes = ftypes
	// objects stored in use-guarded fields may be called, or handed to a callee, only under their guard
	for _, v := range full {
		if rec := fe.guardedVals[termOf(v)]; rec != nil {
			cond := fe.invCtx(st, rec.this).evalBool(rec.g.X)
			fe.oblige(fr, "guard:"+rec.name, rec.g.Props, st.pc, tOr(sx("<", "HW", rec.this.Base), cond), in.Pos(), "guarded object used in a call: "+rec.g.Src)
		}
	}
	// caller-side assertions keyed to this call site (whatever the callee is)
	if fr.con != nil {
		if cs := fr.con.Calls[site]; cs != nil {
			for _, a := range cs.Asserts {
				ctx := fe.ctxFor(fr, st)
				for i, v := range full {
					ctx.binds[fmt.Sprintf("arg%d", i)] = v
				}
				g := ctx.evalBool(a.X)
				fe.oblige(fr, fmt.Sprintf("call[%s].assert:%s", site, a.Label), a.Props, st.pc, g, in.Pos(), a.Src)
			}
		}
	}
	fe.optFwdObligation(fr, st, in, site, cc, full)
	for _, a := range cc.Args {
		fe.sharedStateObligation(fr, st, a, "hands a callee the address of", in.Pos())
	}
	var preSt *State
	if fr.con != nil && (fr.con.Calls[site] != nil || len(fr.con.Ghosts) > 0) {
		preSt = st.clone()
	}
	var res Val
	done := false
	if key != "" {
		if con := fe.eng.contracts[key]; con != nil && !con.Inline {
			fe.used[key] = true
			res = fe.applyContract(fr, st, in, site, con, sig, full, rt, cc.IsInvoke() || (sig != nil && sig.Recv() != nil))
			done = true
		}
	}
	// inline function literals that are called directly (deferred closures, immediately invoked)
	if !done {
		if fv, ok := fnv.(FuncV); ok && fv.Fn != nil && len(fv.Fn.Blocks) > 0 {
			con := fe.eng.contracts[fnKey(fv.Fn)]
			if fv.Fn.Parent() != nil || (con != nil && con.Inline) {
				if fr.depth < 3 {
					res = fe.inlineCall(fr, st, in, fv, args, rt)
					done = true
				}
			}
		}
	}
	if !done {
		res = fe.unknownCall(fr, st, key, cc, full, rt)
	}
	// caller-side assumptions and ghost updates keyed to this call site
	if fr.con != nil && preSt != nil {
		var rvs []Val
		if tv, ok := res.(TupleV); ok {
			rvs = tv.E
		} else {
			rvs = []Val{res}
		}
		bind := func(ctx *EvalCtx) {
			ctx.old = preSt
			for i, v := range full {
				ctx.binds[fmt.Sprintf("arg%d", i)] = v
			}
			if sig != nil {
				ctx.bindResults(sig, rvs)
			} else if len(rvs) > 0 {
				ctx.binds["result"] = rvs[0]
			}
		}
		if cs := fr.con.Calls[site]; cs != nil {
			for _, a := range cs.Assumes {
				ctx := fe.ctxFor(fr, st)
				bind(ctx)
				fe.assume(tImp(st.pc, ctx.evalBool(a.X)), "site assumption "+a.Label)
				fe.eng.noteSiteAssume(fr.name, site, a)
			}
		}
		for _, g := range fr.con.Ghosts {
			if ghostSiteMatches(g.After, site) {
				ctx := fe.ctxFor(fr, st)
				bind(ctx)
				nv := ctx.eval(g.RHS.E)
				fe.assignLvalue(ctx, st, g.LHS, nv)
			}
		}
	}
	return res
}

func resultType(sig *types.Signature) types.Type {
	switch sig.Results().Len() {
	case 0:
		return types.NewTuple()
	case 1:
		return sig.Results().At(0).Type()
	}
	return sig.Results()
}

func (fe *FnExec) unknownCall(fr *frame, st *State, key string, cc *ssa.CallCommon, full []Val, rt types.Type) Val {
	if key == "" {
		key = "dynamic:" + cc.Value.Type().String()
	}
	fe.unknown[key]++
	fe.preCallInv(fr, st, fr.ords[fe.curInstr], full, fe.curArgTypes, fe.curInstr.Pos())
	for i, a := range full {
		fe.curHavocType = nil
		if i < len(fe.curArgTypes) {
			fe.curHavocType = fe.curArgTypes[i]
		}
		fe.havocArg(st, a, 0)
	}
	fe.curHavocType = nil
	fe.lastCallRule(fr, st, full)
	fe.reestablishArgs(st, full, fe.curArgTypes)
	hwPost := fe.fresh("hw", "Int")
	fe.assume(sx("<=", fe.hw, hwPost), "allocation watermark after the call")
	fe.hw = hwPost
	if rt == nil {
		return TupleV{}
	}
	return fe.freshVal(rt, "r."+shortKey(key))
}

func shortKey(k string) string {
	if i := strings.LastIndex(k, "/"); i >= 0 {
		k = k[i+1:]
	}
	return strings.NewReplacer("(", "", ")", "", "*", "").Replace(k)
}

// havocArg forgets what an unknown callee may change through an argument:
// a local cell passed by address, the fields of a struct passed by pointer,
// ghost fields of an object, cells captured by a closure.
func (fe *FnExec) havocArg(st *State, a Val, depth int) {
	switch x := a.(type) {
	case PtrV:
		if x.Cell != nil {
			old := st.cells[x.Cell]
			nv := fe.freshVal(x.Pointee, "hv")
			if old == nil {
				old = fe.zeroVal(x.Cell.Type().(*types.Pointer).Elem())
			}
			st.cells[x.Cell] = setPath(old, x.Path, nv)
			return
		}
		if x.ElemOf != nil {
			return
		}
		if x.Base == "0" {
			return
		}
		fe.havocHeapObj(st, x.Prefix, x.Base, x.Pointee)
		if !x.Interior {
			fe.havocGhost(st, x.Base)
		}
	case RefV:
		if x.T != "0" {
			fe.havocGhost(st, x.T)
			if t, ok := fe.ifaceType[x.T]; ok {
				fe.havocHeapObj(st, typeName(t), x.T, t)
			} else if bv, ok := fe.boxed[x.T]; ok && depth < 2 {
				fe.havocArg(st, bv, depth+1)
			}
		}
	case FuncV:
		if x.Fn != nil && fe.eng.contracts[fnKey(x.Fn)] != nil {
			return // a closure under contract: the last-call rule accounts for its effect on the captured cells
		}
		for _, b := range x.Bind {
			if p, ok := b.(PtrV); ok && p.Cell != nil {
				st.cells[p.Cell] = fe.freshVal(p.Cell.Type().(*types.Pointer).Elem(), "hv")
			}
		}
	case SliceV:
		for _, e := range x.Elems {
			if depth < 2 {
				fe.havocArg(st, e, depth+1)
			}
		}
	}
}

// streamLike reports whether a value of static type t can be read from / written to as a stream.
func streamLike(t types.Type) bool {
	if t == nil {
		return true
	}
	ms := types.NewMethodSet(t)
	for _, m := range []string{"Read", "ReadByte", "ReadAt", "Seek", "Write", "WriteAt", "WriteTo", "ReadFrom"} {
		if ms.Lookup(nil, m) != nil {
			return true
		}
	}
	if _, isI := t.Underlying().(*types.Interface); isI && ms.Len() == 0 {
		return true // interface{}: anything
	}
	return false
}

func (fe *FnExec) havocGhost(st *State, obj Term) {
	for _, name := range sortedKeys(fe.eng.voc.Ghost) {
		g := fe.eng.voc.Ghost[name]
		if name == "held" {
			// assumption: an unknown callee leaves the lock state of this goroutine as it found it
			continue
		}
		if (name == "pos" || name == "wn") && fe.curHavocType != nil && !streamLike(fe.curHavocType) {
			// assumption: an unknown callee moves the read / write position only of arguments whose static
			// type is a reader or writer
			continue
		}
		key := obj
		if g.Key != "" {
			key = sx(sym(g.Key), obj)
		}
		hn := "ghost." + g.Name
		var nv Term
		if g.Sort == "Bool" {
			nv = fe.fresh("hv", "Bool")
		} else {
			nv = fe.fresh("hv", "Int")
		}
		fe.heapSet(st, hn, g.Sort, sx("store", fe.heapGet(st, hn, g.Sort), key, nv))
	}
}

func (fe *FnExec) doBuiltin(fr *frame, st *State, in ssa.Instruction, b *ssa.Builtin, cc *ssa.CallCommon, args []Val, rt types.Type) Val {
	if fr.con != nil {
		if cs := fr.con.Calls[fr.ords[in]]; cs != nil {
			for _, a := range cs.Asserts {
				ctx := fe.ctxFor(fr, st)
				for i, v := range args {
					ctx.binds[fmt.Sprintf("arg%d", i)] = v
				}
				fe.oblige(fr, fmt.Sprintf("call[%s].assert:%s", fr.ords[in], a.Label), a.Props, st.pc, ctx.evalBool(a.X), in.Pos(), a.Src)
			}
		}
	}
	switch b.Name() {
	case "len":
		return IntV{fe.lenOf(args[0])}
	case "cap":
		if s, ok := args[0].(SliceV); ok {
			return IntV{s.Cap}
		}
		return IntV{fe.lenOf(args[0])}
	case "append":
		s, _ := args[0].(SliceV)
		if s.Ref == "" {
			s = SliceV{Ref: "0", Len: "0", Cap: "0"}
		}
		add := "0"
		if len(args) > 1 {
			add = fe.lenOf(args[1])
		}
		r := fe.fresh("app", "Int")
		l := sx("+", s.Len, add)
		c := fe.fresh("app.cap", "Int")
		fe.assume(tAnd(sx("<=", l, c), sx("<=", c, maxLen), sx("<=", "0", r), tImp(tEq(l, "0"), tEq(r, s.Ref))), "append result shape")
		return SliceV{Ref: r, Len: l, Cap: c}
	case "copy":
		n := sx("imin", fe.lenOf(args[0]), fe.lenOf(args[1]))
		return IntV{n}
	case "min", "max":
		t := fe.intTerm(args[0])
		for _, a := range args[1:] {
			if b.Name() == "min" {
				t = sx("imin", t, fe.intTerm(a))
			} else {
				t = sx("imax", t, fe.intTerm(a))
			}
		}
		return IntV{t}
	case "delete", "print", "println", "close", "clear":
		return TupleV{}
	case "ssa:wrapnilchk":
		return args[0]
	case "ssa:deferstack":
		return RefV{"0"}
	case "recover":
		return RefV{"0"}
	}
	if rt == nil {
		return TupleV{}
	}
	return fe.freshVal(rt, "bi")
}

// applyContract: assert requires, havoc the frame, assume ensures.
func (fe *FnExec) applyContract(fr *frame, st *State, in ssa.Instruction, site string, con *Contract, sig *types.Signature, full []Val, rt types.Type, hasRecv bool) Val {
	binds := map[string]Val{}
	fe.bindParams(binds, sig, full, hasRecv)
	// parameters the callee's contract still calls by an older name (renamed since the expectation lists were written)
	for name, h := range fe.eng.localHints[displayName(con.Key)] {
		if _, have := binds[name]; !have && h.Param >= 0 && h.Param < len(full) {
			binds[name] = full[h.Param]
		}
	}
	pkg := fe.eng.pkgOfKey(con.Key)
	mk := func(s *State, old *State) *EvalCtx {
		c := &EvalCtx{fe: fe, st: s, old: old, binds: map[string]Val{}, pkg: pkg, conFile: con.File}
		for k, v := range binds {
			c.binds[k] = v
		}
		return c
	}
	pos := in.Pos()
	if con.Effect && fr.con != nil {
		for _, er := range fr.con.EffectReqs {
			ctx := fe.ctxFor(fr, st)
			fe.oblige(fr, fmt.Sprintf("call[%s].effect:%s", site, er.Label), er.Props, st.pc, ctx.evalBool(er.X), pos, "effectful call ("+shortKey(con.Key)+") requires: "+er.Src)
		}
	}
	fe.preCallInv(fr, st, site, full, fe.curArgTypes, pos)
	for _, rq := range con.Requires {
		g := mk(st, st).evalBool(rq.X)
		fe.oblige(fr, fmt.Sprintf("call[%s].pre:%s", site, rq.Label), rq.Props, st.pc, g, pos, rq.Src)
	}
	pre := st.clone()
	for _, m := range con.Modifies {
		fe.havocLvalue(mk(st, pre), st, m)
	}
	fe.lastCallRule(fr, st, full)
	var res Val
	if rt != nil {
		res = fe.freshVal(rt, "r."+shortKey(con.Key))
	} else {
		res = TupleV{}
	}
	var rvs []Val
	if tv, ok := res.(TupleV); ok {
		rvs = tv.E
	} else {
		rvs = []Val{res}
	}
	hwPre := fe.hw
	hwPost := fe.fresh("hw", "Int")
	fe.assume(sx("<=", hwPre, hwPost), "allocation watermark after the call")
	fe.hw = hwPost
	post := mk(st, pre)
	post.hwPre, post.hwPost = hwPre, hwPost
	post.bindResults(sig, rvs)
	for name, h := range fe.eng.localHints[displayName(con.Key)] {
		if _, have := post.binds[name]; !have && h.Res > 0 && h.Res-1 < len(rvs) {
			post.binds[name] = rvs[h.Res-1] // a named result the callee's contract still calls by an older name
		}
	}
	// let-bound names of the callee become fresh unknowns for the caller
	for _, l := range con.Lets {
		for _, n := range l.Names {
			if n == "_" {
				continue
			}
			if _, ok := post.binds[n]; !ok {
				post.binds[n] = fe.letFresh(con, l, n)
			}
		}
	}
	fe.reestablishArgs(st, full, fe.curArgTypes)
	for _, w := range con.Wraps {
		if rv, ok := post.binds[w[0]]; ok {
			if av, ok := post.binds[w[1]]; ok {
				fe.wraps[termOf(rv)] = av
			}
		}
	}
	for _, name := range con.GhostInit {
		if v, ok := post.binds[name]; ok {
			var rtt types.Type
			if sig != nil && sig.Results().Len() > 0 {
				rtt = sig.Results().At(0).Type()
			}
			fe.assumeResultInv(st, v, rtt)
		}
	}
	for _, en := range con.Ensures {
		g := post.evalBool(en.X)
		fe.assume(tImp(st.pc, g), fmt.Sprintf("ensures %s of %s", en.Label, shortKey(con.Key)))
	}
	// a method that implements an interface contract also guarantees that contract to its static callers
	for _, ik := range con.Implements {
		ic := fe.eng.contracts[ik]
		isig := fe.eng.ifaceSig(ik)
		if ic == nil || isig == nil {
			continue
		}
		ib := map[string]Val{}
		fe.bindParams(ib, isig, full, true)
		ictx := &EvalCtx{fe: fe, st: st, old: pre, binds: ib, pkg: fe.eng.pkgOfKey(ik), conFile: ic.File}
		ictx.bindResults(isig, rvs)
		for _, en := range ic.Ensures {
			if con.ImplExcept[ik+"#"+en.Label] {
				continue
			}
			fe.assume(tImp(st.pc, ictx.evalBool(en.X)), fmt.Sprintf("ensures %s of %s (implemented by %s)", en.Label, shortKey(ik), shortKey(con.Key)))
		}
	}
	return res
}

// letFresh makes the unknown standing for a callee's let-bound call result.
func (fe *FnExec) letFresh(con *Contract, l LetSpec, name string) Val {
	// type: find the callee's function and the call instruction
	if f := fe.eng.funcs[con.Key]; f != nil {
		tmp := &frame{fn: f, ords: map[ssa.Instruction]string{}, callIdx: map[string]ssa.CallInstruction{}, pseudoSites: map[string]bool{}, pseudoVals: map[string]ssa.Value{}}
		fe.assignOrdinals(tmp)
		if ci, ok := tmp.callIdx[l.Call]; ok {
			t := ci.(ssa.Value).Type()
			idx := 0
			for i, n := range l.Names {
				if n == name {
					idx = i
				}
			}
			if tt, ok := t.(*types.Tuple); ok && idx < tt.Len() {
				return fe.freshVal(tt.At(idx).Type(), "let."+name)
			}
			return fe.freshVal(t, "let."+name)
		}
	}
	return IntV{fe.fresh("let."+name, "Int")}
}

func (fe *FnExec) bindParams(binds map[string]Val, sig *types.Signature, full []Val, hasRecv bool) {
	i := 0
	if hasRecv && len(full) > 0 {
		binds["recv"] = full[0]
		if sig != nil && sig.Recv() != nil && sig.Recv().Name() != "" && sig.Recv().Name() != "_" {
			binds[sig.Recv().Name()] = full[0]
		}
		i = 1
	}
	if sig == nil {
		return
	}
	for j := 0; j < sig.Params().Len() && i+j < len(full); j++ {
		p := sig.Params().At(j)
		binds[fmt.Sprintf("arg%d", j)] = full[i+j]
		if p.Name() != "" && p.Name() != "_" {
			binds[p.Name()] = full[i+j]
		}
	}
}

// inlineCall executes the body of a function literal in the caller's state.
func (fe *FnExec) inlineCall(fr *frame, st *State, in ssa.Instruction, fv FuncV, args []Val, rt types.Type) Val {
	sub := fe.newFrame(fv.Fn, fe.eng.contracts[fnKey(fv.Fn)], fr.name+"/"+fv.Fn.Name())
	sub.inlined = true
	sub.depth = fr.depth + 1
	sub.binds = fr.binds
	entry := st.clone()
	entry.defers = nil
	sub.entry = entry
	fe.runFunction(sub, entry, args, fv.Bind)
	if len(sub.rets) == 0 {
		// callee never returns on this path
		st.pc = "false"
		if rt == nil {
			return TupleV{}
		}
		return fe.freshVal(rt, "noret")
	}
	saved := st.defers
	var m *State
	if len(sub.rets) == 1 {
		m = sub.rets[0]
	} else {
		m = fe.mergeStates(sub, fv.Fn.Blocks[0], sub.rets)
	}
	// merge return values
	var res Val
	n := 0
	if len(sub.retVals) > 0 {
		n = len(sub.retVals[0])
	}
	pcs := make([]Term, len(sub.rets))
	for i, r := range sub.rets {
		pcs[i] = r.pc
	}
	var outs []Val
	for k := 0; k < n; k++ {
		vs := make([]Val, len(sub.retVals))
		for i := range sub.retVals {
			vs[i] = sub.retVals[i][k]
		}
		outs = append(outs, fe.mergeVal(vs, pcs, "ret"))
	}
	switch n {
	case 0:
		res = TupleV{}
	case 1:
		res = outs[0]
	default:
		res = TupleV{E: outs}
	}
	*st = *m
	st.defers = saved
	return res
}

// lastCallRule: a function literal with a closure contract was handed to a callee.  The callee may call it any
// number of times; afterwards the captured cells are either untouched (never called) or in the post-state of
// its last call, which satisfies the closure's ensures for some parameters, locals and result.
func (fe *FnExec) lastCallRule(fr *frame, st *State, full []Val) {
	for _, a := range full {
		fv, ok := a.(FuncV)
		if os.Getenv("GCV_DEBUG_CB") != "" {
			fmt.Fprintf(os.Stderr, "lastCallRule arg %T ok=%v\n", a, ok)
		}
		if !ok || fv.Fn == nil || fv.Fn.Parent() == nil {
			continue
		}
		preAll := st.clone()
		// whatever heap / ghost state the literal may change (through what it captured or through the calls it
		// makes) may have changed by the time the callee returns
		for _, name := range sortedKeys(fe.eng.closureFootprint(fv.Fn)) {
			if fe.heapSort[name] == "" {
				fe.heapSort[name] = fe.eng.closureFootprint(fv.Fn)[name]
				fe.heapGet(st, name, fe.heapSort[name])
			}
			fe.heapFresh(st, name)
		}
		con := fe.eng.contracts[fnKey(fv.Fn)]
		if os.Getenv("GCV_DEBUG_CB") != "" {
			fmt.Fprintf(os.Stderr, "lastCallRule closure %s con=%v\n", fnKey(fv.Fn), con != nil)
			if con != nil {
				fmt.Fprintf(os.Stderr, "  invs=%d ensures=%d quiet=%v\n", len(con.CbInvs), len(con.Ensures), fe.quiet)
			}
		}
		if con == nil {
			continue
		}
		preSt := preAll
		// values of the captured cells before the call
		before := map[string]Val{}
		var cells []PtrV
		for i, b := range fv.Bind {
			if p, ok := b.(PtrV); ok && i < len(fv.Fn.FreeVars) {
				before[fv.Fn.FreeVars[i].Name()] = fe.load(preSt, p)
				cells = append(cells, p)
			}
		}
		called := fe.fresh("cb.called", "Bool")
		var last Val = BoolV{fe.fresh("cb.result", "Bool")}
		if fv.Fn.Signature.Results().Len() == 1 && !isBool(fv.Fn.Signature.Results().At(0).Type()) {
			last = fe.freshVal(fv.Fn.Signature.Results().At(0).Type(), "cb.result")
		}
		fe.cbInfo[fv.Fn] = &cbState{called: called, last: last}
		// havoc the captured cells the closure may write
		written := writtenFreeVars(fv.Fn)
		after := map[string]Val{}
		oldB := map[string]Val{}
		for i, b := range fv.Bind {
			p, ok := b.(PtrV)
			if !ok || i >= len(fv.Fn.FreeVars) {
				continue
			}
			name := fv.Fn.FreeVars[i].Name()
			if !written[fv.Fn.FreeVars[i]] {
				after[name] = before[name]
				oldB[name] = before[name]
				continue
			}
			nv := fe.freshVal(p.Pointee, "cb."+name)
			fe.store(st, p, nv)
			after[name] = nv
			oldB[name] = fe.freshVal(p.Pointee, "cbold."+name)
			// never called: unchanged
			fe.assume(tImp(tAnd(st.pc, tNot(called)), fe.valEq(nv, before[name])), "closure never called: captured "+name+" unchanged")
		}
		ctx := &EvalCtx{fe: fe, st: st, old: st, binds: map[string]Val{}, pkg: fe.pkg, conFile: con.File, lazyFn: fv.Fn, oldBinds: oldB}
		for k, v := range after {
			ctx.binds[k] = v
		}
		ctx.binds["result"] = last
		ctx.binds["result0"] = last
		for _, l := range con.Lets {
			for _, n := range l.Names {
				if n != "_" {
					ctx.binds[n] = fe.letFresh(con, l, n)
				}
			}
		}
		// the closure's requires must hold when the callee first calls it
		pctx := &EvalCtx{fe: fe, st: st, old: st, binds: map[string]Val{}, pkg: fe.pkg, conFile: con.File, lazyFn: fv.Fn}
		for k, v := range before {
			pctx.binds[k] = v
		}
		for _, rq := range con.Requires {
			fe.oblige(fr, fmt.Sprintf("closure[%s].pre:%s", fv.Fn.Name(), rq.Label), rq.Props, st.pc, pctx.evalBool(rq.X), fe.curInstr.Pos(), rq.Src)
		}
		for _, en := range con.Ensures {
			fe.assume(tImp(tAnd(st.pc, called), ctx.evalBool(en.X)), "last call of the closure satisfies its ensures "+en.Label)
		}
		// invariants of the literal: hold here, are kept by every call (proved in the literal's own unit), hold afterwards
		for _, inv := range con.CbInvs {
			ictx := &EvalCtx{fe: fe, st: preSt, old: preSt, binds: map[string]Val{}, pkg: fe.pkg, conFile: con.File, lazyFn: fv.Fn}
			for k, v := range before {
				ictx.binds[k] = v
			}
			ictx.atcall = ictx
			fe.oblige(fr, fmt.Sprintf("closure[%s].inv:%s:init", fv.Fn.Name(), inv.Label), inv.Props, st.pc, ictx.evalBool(inv.X), fe.curInstr.Pos(), inv.Src)
			actx := &EvalCtx{fe: fe, st: st, old: st, binds: map[string]Val{}, pkg: fe.pkg, conFile: con.File, lazyFn: fv.Fn, atcall: ictx}
			for k, v := range after {
				actx.binds[k] = v
			}
			fe.assume(tImp(st.pc, actx.evalBool(inv.X)), "invariant "+inv.Label+" of the closure holds after the callee returns")
		}
	}
}

// writtenFreeVars: the captured variables a function literal (or a literal nested in it) may assign to.
func writtenFreeVars(fn *ssa.Function) map[*ssa.FreeVar]bool {
	out := map[*ssa.FreeVar]bool{}
	root := func(v ssa.Value) *ssa.FreeVar {
		for {
			switch x := v.(type) {
			case *ssa.FreeVar:
				return x
			case *ssa.FieldAddr:
				v = x.X
			case *ssa.IndexAddr:
				v = x.X
			default:
				return nil
			}
		}
	}
	for _, b := range fn.Blocks {
		for _, in := range b.Instrs {
			switch x := in.(type) {
			case *ssa.Store:
				if fv := root(x.Addr); fv != nil {
					out[fv] = true
				}
			case ssa.CallInstruction:
				for _, a := range x.Common().Args {
					if fv := root(a); fv != nil {
						out[fv] = true // address handed to a callee
					}
				}
			case *ssa.MakeClosure:
				inner := writtenFreeVars(x.Fn.(*ssa.Function))
				for i, bnd := range x.Bindings {
					if fv := root(bnd); fv != nil && i < len(x.Fn.(*ssa.Function).FreeVars) && inner[x.Fn.(*ssa.Function).FreeVars[i]] {
						out[fv] = true
					}
				}
			}
		}
	}
	return out
}

// closureFootprint: the heap maps (struct fields, ghost fields) that a function literal may modify, found by
// executing it once from an arbitrary state (no obligations are generated).  Conservative: a map that is
// modified anywhere is forgotten as a whole at the place the literal is handed to a callee.
func (e *Engine) closureFootprint(fn *ssa.Function) map[string]string {
	e.mu.Lock()
	if fp, ok := e.footprints[fn]; ok {
		e.mu.Unlock()
		return fp
	}
	e.footprints[fn] = map[string]string{} // recursion guard
	e.mu.Unlock()
	fp := map[string]string{}
	if len(fn.Blocks) > 0 {
		con := e.contracts[fnKey(fn)]
		prev := map[int]*loopInfo{}
		var fe *FnExec
		var fr *frame
		for round := 0; round < 4; round++ {
			fe = e.newExec(fn, true)
			fr = fe.newFrame(fn, con, displayName(fnKey(fn)))
			for _, li := range fr.loops {
				if p := prev[li.ord]; p != nil {
					li.havocCells, li.havocHeap, li.havocPaths = p.havocCells, p.havocHeap, p.havocPaths
				}
			}
			fe.top = fr
			fe.setupEntry(fr)
			fe.runFunction(fr, fr.entry, fe.paramVals(fr), nil)
			for _, li := range fr.loops {
				prev[li.ord] = li
			}
			if !fe.changed {
				break
			}
		}
		for _, r := range fr.rets {
			for name, t := range r.heap {
				if strings.HasPrefix(name, "cap.") {
					continue // the literal's own view of its captured variables
				}
				if t0, ok := fr.entry.heap[name]; !ok || t0 != t {
					if !ok && t == sym(name+"@0") {
						continue
					}
					fp[name] = fe.heapSort[name]
				}
			}
		}
		for _, li := range fr.loops {
			for name, srt := range li.havocHeap {
				if !strings.HasPrefix(name, "cap.") {
					fp[name] = srt
				}
			}
		}
	}
	e.mu.Lock()
	e.footprints[fn] = fp
	e.mu.Unlock()
	return fp
}

// ghostSiteMatches: a ghost update is keyed to one call site (`callee#k`) or, with `callee#*`, to every call of that
// callee in the function — the form to use for counting ("exactly one insert per record"), because it also counts a
// call that a later change adds.
func ghostSiteMatches(key, site string) bool {
	if key == site {
		return true
	}
	if strings.HasSuffix(key, "#*") && site != "" {
		return strings.HasPrefix(site, strings.TrimSuffix(key, "*"))
	}
	return false
}
