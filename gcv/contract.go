package main

// Contract files: comment-only Go files (`//go:build verif`) in the packages of
// /repo, and *.spec files under /verif/contracts for dependencies.  Every
// contract line starts with `//@` (in .go files) or is a bare line (in .spec
// files).  See DESIGN.md §3.1 and Appendix A.

import (
	"fmt"
	"go/ast"
	"go/parser"
	"os"
	"regexp"
	"strconv"
	"strings"
)

// CExpr is a contract expression: a Go expression tree plus ==> / <==> at the
// top level (right associative).
type CExpr struct {
	Src  string
	Op   string // "", "==>", "<==>"
	L, R *CExpr
	E    ast.Expr
}

type Clause struct {
	Label string
	Props []string
	X     *CExpr
	Src   string
	File  string
	Line  int
}

type LetSpec struct {
	Names []string
	Call  string // callee#k
}

type LoopSpec struct {
	Invs      []Clause
	Steps     []Clause // checked at every back edge
	Decreases *CExpr
}

type CallSpec struct {
	Asserts []Clause // extra obligations at the call site (over arg0.., recv)
	Assumes []Clause
}

type GhostUpdate struct {
	After string // call[callee#k], or "return"
	LHS   *CExpr
	RHS   *CExpr
}

type Contract struct {
	Key        string // canonical function key (types.Func.FullName, or pkg.Func$k for literals)
	File       string
	Trusted    bool // contract is assumed, body not verified (external or out of subset)
	NoErrProp  bool // `noerrprop`: the generated error-propagation family is not wanted for this function (CLI glue with dozens of fallible calls)
	Pure       bool
	BV         bool
	Requires   []Clause
	Ensures    []Clause
	Assumes    []Clause
	Chooses    []Clause // ghost constants of fresh objects chosen at return (assumed)
	Checks     []Clause // internal postconditions: proved at every return, not exported to callers
	CbInvs     []Clause // function literals handed to a callee: holds at the hand-over, kept by every call, holds afterwards
	Modifies   []*CExpr
	Lets       []LetSpec
	Loops      map[int]*LoopSpec
	Calls      map[string]*CallSpec
	Allocs     map[int]*CExpr // bounded_by
	MayPanic   map[int]bool
	Ghosts     []GhostUpdate
	ElemFacts  []ElemFact
	Inline     bool            // callee is inlined at call sites instead of using the contract
	BitVector  bool            // body verified in bit-vector mode (bv.go)
	Wraps      [][2]string     // (result, arg): the result reads / writes through arg (calls its methods)
	Effect     bool            // the callee has an externally visible effect (file write, truncate, ...)
	EffectReqs []Clause        // obligations at every call to an effectful callee
	ImplExcept map[string]bool // interface clauses this implementation does not satisfy (stated, not claimed)
	Implements []string        // keys of interface-method contracts whose ensures this method must satisfy
	GhostInit  []string        // results whose type invariant is established by choice of their fresh ghost state
	Closures   map[int]*Contract
	Notes      []string
	Lines      int
}

type ElemFact struct {
	Slice string // name of the slice variable
	Idx   string
	Val   string
	X     *CExpr
}

// Vocabulary: ghost fields, uninterpreted functions, defined functions, axioms.
type GhostField struct {
	Name   string
	Key    string // "" (the object itself) or a ufun name applied to the object
	Sort   string // Int | Bool
	Lo, Hi string // optional range assumed for every read
}

type Vocab struct {
	Ghost    map[string]*GhostField
	UFuns    map[string]int // name -> arity
	UPreds   map[string]int
	Defs     []string // raw SMT define-fun lines
	DefName  map[string]int
	DefBool  map[string]bool
	Axioms   []struct{ Name, SMT string }
	TypeInvs map[string][]Clause // typeName (without *) -> invariants over `this`
	Guards   map[string]Clause   // "typeName.field" -> condition over `this` under which the field may be touched
	UseGuard map[string]Clause   // "typeName.field" -> condition under which the object stored in the field may be called / handed to a callee
}

func newVocab() *Vocab {
	return &Vocab{Ghost: map[string]*GhostField{}, UFuns: map[string]int{}, UPreds: map[string]int{}, DefName: map[string]int{}, DefBool: map[string]bool{}, TypeInvs: map[string][]Clause{}, Guards: map[string]Clause{}, UseGuard: map[string]Clause{}}
}

var reLabel = regexp.MustCompile(`^([A-Za-z_][A-Za-z0-9_]*)\s*(\[[A-Z0-9, ]+\])?\s*:\s*(.*)$`)

func parseClause(rest, file string, line int) (Clause, error) {
	m := reLabel.FindStringSubmatch(rest)
	if m == nil {
		return Clause{}, fmt.Errorf("%s:%d: clause needs `label: expr`: %q", file, line, rest)
	}
	x, err := parseCExpr(m[3])
	if err != nil {
		return Clause{}, fmt.Errorf("%s:%d: %v", file, line, err)
	}
	c := Clause{Label: m[1], X: x, Src: m[3], File: file, Line: line}
	if m[2] != "" {
		for _, p := range strings.Split(strings.Trim(m[2], "[]"), ",") {
			c.Props = append(c.Props, strings.TrimSpace(p))
		}
	}
	return c, nil
}

// splitTop splits s at the first top-level occurrence of op (outside brackets and strings).
func splitTop(s, op string) (string, string, bool) {
	d := 0
	inStr := false
	for i := 0; i+len(op) <= len(s); i++ {
		c := s[i]
		if c == '"' {
			inStr = !inStr
		}
		if inStr {
			continue
		}
		switch c {
		case '(', '[', '{':
			d++
		case ')', ']', '}':
			d--
		}
		if d == 0 && s[i:i+len(op)] == op {
			// do not split "<==>" when looking for "==>"
			if op == "==>" && i > 0 && s[i-1] == '<' {
				continue
			}
			return s[:i], s[i+len(op):], true
		}
	}
	return "", "", false
}

// desugarGroups rewrites parenthesised groups "(A ==> B)" / "(A <==> B)" into implies(A, B) / iff(A, B).
func desugarGroups(s string) string {
	for {
		changed := false
		// find an innermost group containing an arrow
		stack := []int{}
		for i := 0; i < len(s); i++ {
			switch s[i] {
			case '(':
				stack = append(stack, i)
			case ')':
				if len(stack) == 0 {
					return s
				}
				open := stack[len(stack)-1]
				stack = stack[:len(stack)-1]
				inner := s[open+1 : i]
				isCall := open > 0 && (s[open-1] == '_' || s[open-1] >= 'a' && s[open-1] <= 'z' || s[open-1] >= 'A' && s[open-1] <= 'Z' || s[open-1] >= '0' && s[open-1] <= '9' || s[open-1] == ']')
				if isCall || !strings.Contains(inner, "==>") {
					continue
				}
				if l, r, ok := splitTop(inner, "<==>"); ok {
					s = s[:open] + "iff(" + l + ", " + r + ")" + s[i+1:]
					changed = true
				} else if l, r, ok := splitTop(inner, "==>"); ok {
					s = s[:open] + "implies(" + l + ", " + r + ")" + s[i+1:]
					changed = true
				}
			}
			if changed {
				break
			}
		}
		if !changed {
			return s
		}
	}
}

func parseCExpr(s string) (*CExpr, error) {
	s = desugarGroups(strings.TrimSpace(s))
	if l, r, ok := splitTop(s, "<==>"); ok {
		L, err := parseCExpr(l)
		if err != nil {
			return nil, err
		}
		R, err := parseCExpr(r)
		if err != nil {
			return nil, err
		}
		return &CExpr{Src: s, Op: "<==>", L: L, R: R}, nil
	}
	if l, r, ok := splitTop(s, "==>"); ok {
		L, err := parseCExpr(l)
		if err != nil {
			return nil, err
		}
		R, err := parseCExpr(r)
		if err != nil {
			return nil, err
		}
		return &CExpr{Src: s, Op: "==>", L: L, R: R}, nil
	}
	e, err := parser.ParseExpr(s)
	if err != nil {
		return nil, fmt.Errorf("cannot parse %q: %v", s, err)
	}
	return &CExpr{Src: s, E: e}, nil
}

var reIdx = regexp.MustCompile(`^(loop|alloc|panic|assert|closure|go)\[(\d+)\]\s*(.*)$`)
var reCall = regexp.MustCompile(`^call\[([^\]]+)\]\s*(.*)$`)

// parseContractText parses the contract lines of one file.  pkgPath is used to
// qualify short function keys ("" for .spec files, whose keys are written in full).
func parseContractText(lines []string, file string, pkgPath string, voc *Vocab) ([]*Contract, error) {
	var out []*Contract
	var cur *Contract
	var closureStack []*Contract
	var top *Contract
	for i, raw := range lines {
		ln := strings.TrimSpace(raw)
		if j := strings.Index(ln, " // "); j >= 0 {
			ln = strings.TrimSpace(ln[:j])
		}
		if ln == "" || strings.HasPrefix(ln, "#") {
			continue
		}
		lineNo := i + 1
		word, rest := ln, ""
		if j := strings.IndexAny(ln, " \t"); j >= 0 {
			word, rest = ln[:j], strings.TrimSpace(ln[j+1:])
		}
		fail := func(err error) ([]*Contract, error) { return nil, err }
		switch {
		case word == "func":
			key := qualifyKey(rest, pkgPath)
			for _, c := range out {
				if c.Key == key {
					return fail(fmt.Errorf("%s:%d: second contract block for %s (the first is silently shadowed otherwise)", file, lineNo, key))
				}
			}
			cur = &Contract{Key: key, File: file, Loops: map[int]*LoopSpec{}, Calls: map[string]*CallSpec{}, Allocs: map[int]*CExpr{}, MayPanic: map[int]bool{}, Closures: map[int]*Contract{}}
			top = cur
			closureStack = nil
			out = append(out, cur)
			continue
		case word == "ghostfield":
			// ghostfield name [key f] : sort
			f := strings.Fields(strings.ReplaceAll(rest, ":", " : "))
			g := &GhostField{Name: f[0], Sort: "Int"}
			for k := 1; k < len(f); k++ {
				if f[k] == "key" && k+1 < len(f) {
					g.Key = f[k+1]
				}
				if f[k] == ":" && k+1 < len(f) {
					if f[k+1] == "bool" {
						g.Sort = "Bool"
					}
				}
				if f[k] == "range" && k+2 < len(f) {
					g.Lo, g.Hi = f[k+1], f[k+2]
				}
			}
			voc.Ghost[g.Name] = g
			continue
		case word == "ufun":
			// ufun name/arity
			p := strings.Split(rest, "/")
			n, _ := strconv.Atoi(strings.TrimSpace(p[1]))
			voc.UFuns[strings.TrimSpace(p[0])] = n
			continue
		case word == "upred":
			p := strings.Split(rest, "/")
			n, _ := strconv.Atoi(strings.TrimSpace(p[1]))
			voc.UPreds[strings.TrimSpace(p[0])] = n
			continue
		case word == "smtdef":
			// smtdef name/arity (define-fun ...)
			j := strings.Index(rest, " ")
			p := strings.Split(rest[:j], "/")
			n, _ := strconv.Atoi(p[1])
			voc.DefName[p[0]] = n
			if strings.HasSuffix(strings.TrimSpace(rest), "Bool)") || strings.Contains(rest, ") Bool ") {
				voc.DefBool[p[0]] = true
			}
			voc.Defs = append(voc.Defs, strings.TrimSpace(rest[j:]))
			continue
		case word == "typeinv":
			// typeinv <type> label: expr
			j := strings.IndexAny(rest, " \t")
			tn := rest[:j]
			c, err := parseClause(strings.TrimSpace(rest[j:]), file, lineNo)
			if err != nil {
				return fail(err)
			}
			voc.TypeInvs[tn] = append(voc.TypeInvs[tn], c)
			continue
		case word == "guarded" || word == "guardeduse":
			// guarded <type>.<field> label [props]: expr over this      (every access of the field)
			// guardeduse <type>.<field> label [props]: expr over this   (every call on / with the object stored in the field)
			j := strings.IndexAny(rest, " \t")
			c, err := parseClause(strings.TrimSpace(rest[j:]), file, lineNo)
			if err != nil {
				return fail(err)
			}
			if word == "guarded" {
				voc.Guards[rest[:j]] = c
			} else {
				voc.UseGuard[rest[:j]] = c
			}
			continue
		case word == "axiom":
			j := strings.Index(rest, ":")
			voc.Axioms = append(voc.Axioms, struct{ Name, SMT string }{strings.TrimSpace(rest[:j]), strings.TrimSpace(rest[j+1:])})
			continue
		}
		if cur == nil {
			return fail(fmt.Errorf("%s:%d: clause outside func block: %q", file, lineNo, ln))
		}
		cur.Lines++
		switch word {
		case "bitvector":
			cur.BitVector = true
		case "noerrprop":
			cur.NoErrProp = true
		case "trusted":
			cur.Trusted = true
			if rest != "" {
				cur.Notes = append(cur.Notes, rest)
			}
		case "pure":
			cur.Pure = true
		case "inline":
			cur.Inline = true
		case "arith":
			cur.BV = rest == "bv"
		case "note":
			cur.Notes = append(cur.Notes, rest)
		case "requires", "ensures", "assume", "choose", "check", "invariant":
			c, err := parseClause(rest, file, lineNo)
			if err != nil {
				return fail(err)
			}
			switch word {
			case "requires":
				cur.Requires = append(cur.Requires, c)
			case "ensures":
				cur.Ensures = append(cur.Ensures, c)
			case "choose":
				cur.Chooses = append(cur.Chooses, c)
			case "check":
				cur.Checks = append(cur.Checks, c)
			case "invariant":
				cur.CbInvs = append(cur.CbInvs, c)
			default:
				cur.Assumes = append(cur.Assumes, c)
			}
		case "modifies":
			for _, p := range splitArgs(rest) {
				x, err := parseCExpr(p)
				if err != nil {
					return fail(fmt.Errorf("%s:%d: %v", file, lineNo, err))
				}
				cur.Modifies = append(cur.Modifies, x)
			}
		case "let":
			// let a, b := call[callee#k]
			p := strings.SplitN(rest, ":=", 2)
			if len(p) != 2 {
				return fail(fmt.Errorf("%s:%d: bad let", file, lineNo))
			}
			var names []string
			for _, n := range strings.Split(p[0], ",") {
				names = append(names, strings.TrimSpace(n))
			}
			m := reCall.FindStringSubmatch(strings.TrimSpace(p[1]))
			if m == nil {
				return fail(fmt.Errorf("%s:%d: let needs call[callee#k]", file, lineNo))
			}
			cur.Lets = append(cur.Lets, LetSpec{Names: names, Call: m[1]})
		case "elem":
			// elem d[i] as v: expr
			m := regexp.MustCompile(`^(\w+)\[(\w+)\]\s+as\s+(\w+)\s*:\s*(.*)$`).FindStringSubmatch(rest)
			if m == nil {
				return fail(fmt.Errorf("%s:%d: bad elem clause", file, lineNo))
			}
			x, err := parseCExpr(m[4])
			if err != nil {
				return fail(fmt.Errorf("%s:%d: %v", file, lineNo, err))
			}
			cur.ElemFacts = append(cur.ElemFacts, ElemFact{Slice: m[1], Idx: m[2], Val: m[3], X: x})
		case "effect":
			cur.Effect = true
		case "wraps":
			f := strings.Fields(rest)
			if len(f) == 2 {
				cur.Wraps = append(cur.Wraps, [2]string{f[0], f[1]})
			}
		case "effects":
			// effects require label: expr
			c, err := parseClause(strings.TrimSpace(strings.TrimPrefix(rest, "require")), file, lineNo)
			if err != nil {
				return fail(err)
			}
			cur.EffectReqs = append(cur.EffectReqs, c)
		case "implements":
			// implements <key> [except label, label]
			key := rest
			if i := strings.Index(rest, " except "); i >= 0 {
				key = strings.TrimSpace(rest[:i])
				if cur.ImplExcept == nil {
					cur.ImplExcept = map[string]bool{}
				}
				for _, l := range splitArgs(rest[i+len(" except "):]) {
					cur.ImplExcept[key+"#"+l] = true
				}
			}
			cur.Implements = append(cur.Implements, key)
		case "ghostinit":
			cur.GhostInit = append(cur.GhostInit, splitArgs(rest)...)
		case "ghost":
			// ghost after call[x#k]: lhs := rhs   |   ghost before return: lhs := rhs
			m := regexp.MustCompile(`^after\s+call\[([^\]]+)\]\s*:\s*(.*?)\s*:=\s*(.*)$`).FindStringSubmatch(rest)
			if m == nil {
				if m2 := regexp.MustCompile(`^before\s+return\s*:\s*(.*?)\s*:=\s*(.*)$`).FindStringSubmatch(rest); m2 != nil {
					m = []string{m2[0], "return", m2[1], m2[2]}
				}
			}
			if m == nil {
				if m2 := regexp.MustCompile(`^before\s+call\[([^\]]+)\]\s*:\s*(.*?)\s*:=\s*(.*)$`).FindStringSubmatch(rest); m2 != nil {
					m = []string{m2[0], "before:" + m2[1], m2[2], m2[3]}
				}
			}
			if m == nil {
				if m2 := regexp.MustCompile(`^after\s+(go\[\d+\])\s*:\s*(.*?)\s*:=\s*(.*)$`).FindStringSubmatch(rest); m2 != nil {
					m = []string{m2[0], m2[1], m2[2], m2[3]}
				}
			}
			if m == nil {
				if m2 := regexp.MustCompile(`^at\s+entry\s*:\s*(.*?)\s*:=\s*(.*)$`).FindStringSubmatch(rest); m2 != nil {
					m = []string{m2[0], "entry", m2[1], m2[2]}
				}
			}
			if m == nil {
				return fail(fmt.Errorf("%s:%d: bad ghost clause", file, lineNo))
			}
			l, err := parseCExpr(m[2])
			if err != nil {
				return fail(fmt.Errorf("%s:%d: %v", file, lineNo, err))
			}
			r, err := parseCExpr(m[3])
			if err != nil {
				return fail(fmt.Errorf("%s:%d: %v", file, lineNo, err))
			}
			cur.Ghosts = append(cur.Ghosts, GhostUpdate{After: m[1], LHS: l, RHS: r})
		case "end":
			// end closure: back to the enclosing block (closure blocks nest like the literals they describe)
			if n := len(closureStack); n > 0 {
				cur = closureStack[n-1]
				closureStack = closureStack[:n-1]
			} else {
				cur = top
			}
		default:
			if m := reIdx.FindStringSubmatch(ln); m != nil {
				k, _ := strconv.Atoi(m[2])
				body := m[3]
				switch m[1] {
				case "loop":
					ls := cur.Loops[k]
					if ls == nil {
						ls = &LoopSpec{}
						cur.Loops[k] = ls
					}
					if strings.HasPrefix(body, "invariant") {
						c, err := parseClause(strings.TrimSpace(strings.TrimPrefix(body, "invariant")), file, lineNo)
						if err != nil {
							return fail(err)
						}
						ls.Invs = append(ls.Invs, c)
					} else if strings.HasPrefix(body, "step") {
						c, err := parseClause(strings.TrimSpace(strings.TrimPrefix(body, "step")), file, lineNo)
						if err != nil {
							return fail(err)
						}
						ls.Steps = append(ls.Steps, c)
					} else if strings.HasPrefix(body, "decreases") {
						x, err := parseCExpr(strings.TrimSpace(strings.TrimPrefix(body, "decreases")))
						if err != nil {
							return fail(fmt.Errorf("%s:%d: %v", file, lineNo, err))
						}
						ls.Decreases = x
					} else {
						return fail(fmt.Errorf("%s:%d: bad loop clause %q", file, lineNo, body))
					}
				case "alloc":
					if !strings.HasPrefix(body, "bounded_by") {
						return fail(fmt.Errorf("%s:%d: bad alloc clause", file, lineNo))
					}
					x, err := parseCExpr(strings.TrimSpace(strings.TrimPrefix(body, "bounded_by")))
					if err != nil {
						return fail(fmt.Errorf("%s:%d: %v", file, lineNo, err))
					}
					cur.Allocs[k] = x
				case "panic":
					if strings.HasPrefix(body, "by_design") {
						cur.MayPanic[k] = true
					}
				case "closure":
					// closure[k] begins a nested contract block for the k-th function literal
					cc := &Contract{Key: fmt.Sprintf("%s$%d", cur.Key, k+1), File: file, Loops: map[int]*LoopSpec{}, Calls: map[string]*CallSpec{}, Allocs: map[int]*CExpr{}, MayPanic: map[int]bool{}, Closures: map[int]*Contract{}}
					cur.Closures[k] = cc
					closureStack = append(closureStack, cur)
					cur = cc
				default:
					return fail(fmt.Errorf("%s:%d: unsupported clause %q", file, lineNo, ln))
				}
				continue
			}
			if m := reCall.FindStringSubmatch(ln); m != nil {
				cs := cur.Calls[m[1]]
				if cs == nil {
					cs = &CallSpec{}
					cur.Calls[m[1]] = cs
				}
				body := m[2]
				kind := "assert"
				if strings.HasPrefix(body, "assume") {
					kind = "assume"
				}
				body = strings.TrimSpace(strings.TrimPrefix(strings.TrimPrefix(body, "assert"), "assume"))
				c, err := parseClause(body, file, lineNo)
				if err != nil {
					return fail(err)
				}
				if kind == "assert" {
					cs.Asserts = append(cs.Asserts, c)
				} else {
					cs.Assumes = append(cs.Assumes, c)
				}
				continue
			}
			return fail(fmt.Errorf("%s:%d: unknown clause %q", file, lineNo, ln))
		}
	}
	return out, nil
}

func splitArgs(s string) []string {
	var out []string
	d := 0
	start := 0
	for i := 0; i < len(s); i++ {
		switch s[i] {
		case '(', '[', '{':
			d++
		case ')', ']', '}':
			d--
		case ',':
			if d == 0 {
				out = append(out, strings.TrimSpace(s[start:i]))
				start = i + 1
			}
		}
	}
	if strings.TrimSpace(s[start:]) != "" {
		out = append(out, strings.TrimSpace(s[start:]))
	}
	return out
}

// qualifyKey turns a short key written in a package-local contract file into
// the canonical key: "LdRead" -> "<pkg>.LdRead"; "(*T).M" -> "(*<pkg>.T).M";
// "(T).M" -> "(<pkg>.T).M".  Keys that already contain a '/' or a '.' before
// the method part are taken as written.
func qualifyKey(k, pkgPath string) string {
	k = strings.TrimSpace(k)
	if pkgPath == "" {
		return k
	}
	if strings.HasPrefix(k, "(") {
		j := strings.Index(k, ")")
		recv := k[1:j]
		ptr := strings.HasPrefix(recv, "*")
		recv = strings.TrimPrefix(recv, "*")
		if !strings.Contains(recv, ".") {
			recv = pkgPath + "." + recv
		}
		if ptr {
			recv = "*" + recv
		}
		return "(" + recv + ")" + k[j+1:]
	}
	if strings.Contains(k, "/") || strings.Contains(k, ".") {
		return k
	}
	return pkgPath + "." + k
}

// contractOverlay replaces the text of contract files (development and the must-fail corpus only).
var contractOverlay map[string][]byte

func readContractFile(path string, pkgPath string, voc *Vocab) ([]*Contract, error) {
	return readContractFileOv(path, pkgPath, voc, nil)
}

func readContractFileOv(path string, pkgPath string, voc *Vocab, overlay map[string][]byte) ([]*Contract, error) {
	data, err := os.ReadFile(path)
	if err != nil {
		return nil, err
	}
	if ov, ok := contractOverlay[path]; ok {
		data = ov
	}
	if ov, ok := overlay[path]; ok {
		data = ov
	}
	var lines []string
	isGo := strings.HasSuffix(path, ".go")
	for _, ln := range strings.Split(string(data), "\n") {
		if isGo {
			t := strings.TrimSpace(ln)
			if strings.HasPrefix(t, "//@") {
				lines = append(lines, strings.TrimPrefix(t, "//@"))
			} else {
				lines = append(lines, "")
			}
		} else {
			lines = append(lines, ln)
		}
	}
	// join continuation lines: a line whose first non-blank char is '|' continues the previous clause
	for i := len(lines) - 1; i > 0; i-- {
		t := strings.TrimSpace(lines[i])
		if strings.HasPrefix(t, "|") {
			j := i - 1
			for j > 0 && strings.TrimSpace(lines[j]) == "" {
				j--
			}
			lines[j] = lines[j] + " " + strings.TrimSpace(t[1:])
			lines[i] = ""
		}
	}
	return parseContractText(lines, path, pkgPath, voc)
}
