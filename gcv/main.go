package main

import (
	"flag"
	"fmt"
	"os"
	"sort"
	"strings"
)

func main() {
	if len(os.Args) < 2 {
		fmt.Fprintln(os.Stderr, "usage: gcv <check|verify|dump|expect|selftest|replay> ...")
		os.Exit(2)
	}
	exit := func(rc int) { // os.Exit skips deferred calls: remove the solver scratch directory first
		cleanupTmp()
		os.Exit(rc)
	}
	defer cleanupTmp()
	switch os.Args[1] {
	case "verify":
		cmdVerify(os.Args[2:])
	case "check":
		exit(cmdCheck(os.Args[2:]))
	case "expect":
		exit(cmdExpect(os.Args[2:]))
	case "selftest":
		exit(cmdSelftest(os.Args[2:]))
	case "replay":
		exit(cmdReplay(os.Args[2:]))
	case "mutate":
		exit(cmdMutate(os.Args[2:]))
	default:
		fmt.Fprintln(os.Stderr, "unknown command", os.Args[1])
		os.Exit(2)
	}
}

// verify: developer command — verify the named functions of one module and print every obligation.
func cmdVerify(args []string) {
	fs := flag.NewFlagSet("verify", flag.ExitOnError)
	mod := fs.String("mod", "v2", "module directory relative to /repo ('.', v2, cmd)")
	timeout := fs.Int("t", 10, "per-obligation solver timeout (s)")
	dump := fs.String("dump", "", "write the SMT script of the (single) function here")
	showModel := fs.Bool("model", false, "print models of failed obligations")
	all := fs.Bool("all", false, "verify every function that has a contract")
	sweep := fs.String("sweep", "", "verify every function whose key contains this string")
	sites := fs.Bool("sites", false, "list the call sites of each function by contract name and source line")
	quietOK := fs.Bool("q", false, "print only obligations that are not proved")
	ov := fs.String("ov", "", "overlay: /repo/path.go=/tmp/replacement.go[,...]")
	fs.Parse(args)
	var overlay map[string][]byte
	if *ov != "" {
		overlay = map[string][]byte{}
		for _, kv := range strings.Split(*ov, ",") {
			p := strings.SplitN(kv, "=", 2)
			data, err := os.ReadFile(p[1])
			if err != nil {
				panic(err)
			}
			overlay[p[0]] = data
		}
		contractOverlay = overlay
	}
	eng, err := loadEngine(repoRoot+"/"+*mod, overlay)
	if err != nil {
		fmt.Fprintln(os.Stderr, "load:", err)
		os.Exit(2)
	}
	keys := fs.Args()
	if *sweep != "" {
		for k := range eng.funcs {
			if strings.Contains(k, *sweep) && (!strings.Contains(k, "$") || eng.contracts[k] != nil) {
				keys = append(keys, k)
			}
		}
		sort.Strings(keys)
	}
	if *all {
		for k, c := range eng.contracts {
			if !c.Trusted && eng.funcs[k] != nil {
				keys = append(keys, k)
			}
		}
		sort.Strings(keys)
	}
	for _, k := range keys {
		key := eng.resolveKey(k)
		r := safeVerify(eng, key, *timeout)
		fmt.Printf("== %s  (gen %d ms, solve %d ms, blocks %d/%d, vacuity %s)\n", r.Name, r.GenMS, r.SolveMS, r.Blocks, r.BlocksAll, r.Vacuity)
		if *sites {
			for _, l := range r.Sites {
				fmt.Println("   site", l)
			}
		}
		if r.Auto != nil {
			fmt.Printf("   value function: refuted post-conditions and safety obligations are replayed by a generated driver (%d input leaves)\n", len(r.Auto.Leaves))
		}
		for _, e := range r.Errs {
			fmt.Println("   ERROR:", e)
		}
		seenW := map[string]bool{}
		for _, e := range r.Warns {
			if !seenW[e] {
				seenW[e] = true
				fmt.Println("   warn:", e)
			}
		}
		for _, o := range r.Obs {
			if *quietOK && o.Status == "proved" {
				continue
			}
			reach := ""
			if o.Reach == "unsat" {
				reach = " (UNREACHABLE: vacuous)"
			}
			fmt.Printf("   %-8s %-60s %s [%s] %s%s\n", o.Status, o.Label, o.Where, o.Solver, trunc(o.Note, 70), reach)
			if o.Status != "proved" && *showModel {
				fmt.Println(indent(o.Output, "      "))
				fmt.Println(indent(filterModel(o.Model), "      "))
			}
		}
		if len(r.Unknown) > 0 {
			fmt.Println("   callees without contract:", strings.Join(sortedKeys(r.Unknown), ", "))
		}
		if len(r.Abstracted) > 0 {
			fmt.Println("   abstracted:", r.Abstracted)
		}
		if *dump != "" {
			os.WriteFile(*dump, []byte(r.Script.text(nil, false, nil)), 0o644)
		}
	}
}

func trunc(s string, n int) string {
	if len(s) > n {
		return s[:n] + "…"
	}
	return s
}

func indent(s, pfx string) string {
	return pfx + strings.ReplaceAll(strings.TrimRight(s, "\n"), "\n", "\n"+pfx)
}

// filterModel keeps the scalar model lines.
func filterModel(m string) string {
	var out []string
	lines := strings.Split(m, "\n")
	for i := 0; i < len(lines); i++ {
		ln := strings.TrimSpace(lines[i])
		if strings.HasPrefix(ln, "(define-fun") && !strings.Contains(ln, "Array") && strings.HasSuffix(ln, "Int") || strings.HasSuffix(ln, "Bool") {
			if i+1 < len(lines) {
				name := strings.Fields(ln)[1]
				if strings.HasPrefix(name, "str.") || strings.HasPrefix(name, "arr.") || strings.HasPrefix(name, "|hv") || strings.HasPrefix(name, "hv") {
					continue
				}
				out = append(out, name+" = "+strings.TrimSuffix(strings.TrimSpace(lines[i+1]), ")"))
			}
		}
	}
	sort.Strings(out)
	if len(out) > 80 {
		out = out[:80]
	}
	return strings.Join(out, "\n")
}

// resolveKey accepts short forms: "util.LdRead", "(*BlockReader).Next", full keys.
func (e *Engine) resolveKey(k string) string {
	if _, ok := e.funcs[k]; ok {
		return k
	}
	var cands []string
	norm := func(x string) string {
		// "(*a/b/c.T).M" -> "(*c.T).M"; "a/b/c.F" -> "c.F"
		pre := ""
		for strings.HasPrefix(x, "(") || strings.HasPrefix(x, "*") {
			pre += x[:1]
			x = x[1:]
		}
		if i := strings.LastIndex(x, "/"); i >= 0 {
			x = x[i+1:]
		}
		return pre + x
	}
	for fk := range e.funcs {
		if norm(fk) == k {
			cands = append(cands, fk)
		}
	}
	if len(cands) > 0 {
		sort.Strings(cands)
		return cands[0]
	}
	for fk := range e.funcs {
		if strings.HasSuffix(fk, k) || strings.HasSuffix(displayName(fk), k) {
			cands = append(cands, fk)
		} else {
			// "(*BlockReader).Next" against "(*path.BlockReader).Next"
			s := fk
			if i := strings.LastIndex(s, "/"); i >= 0 {
				s2 := s[i+1:]
				if j := strings.Index(s2, "."); j >= 0 {
					short := s2[j+1:]
					if strings.HasPrefix(fk, "(*") {
						short = "(*" + short
					} else if strings.HasPrefix(fk, "(") {
						short = "(" + short
					}
					if short == k {
						cands = append(cands, fk)
					}
				}
			}
		}
	}
	sort.Strings(cands)
	if len(cands) >= 1 {
		return cands[0]
	}
	return k
}

func safeVerify(eng *Engine, key string, timeout int) (r *FuncResult) {
	defer func() {
		if e := recover(); e != nil {
			r = &FuncResult{Key: key, Name: displayName(key), Errs: []string{fmt.Sprintf("engine panic: %v", e)}}
		}
	}()
	return eng.verifyFunc(key, timeout, 0, false, true)
}
