package main

// Automatic replay of refuted obligations of *value functions* (DESIGN.md §3.5).
//
// A function is auto-replayable when every parameter (and the receiver) can be built from scalars: integers,
// booleans, strings and byte slices (length and, when short, contents from the model), structs of the function's
// own package made of such leaves, and pointers to those structs.  For such a function the engine records, at
// entry, the SMT term of every leaf.  When a post-condition (ensures / check) or a safety obligation of the function
// is refuted, the solver is asked for the values of these terms under the refuting model, a Go test is generated that
//   - builds the inputs from those values,
//   - calls the REAL function (in-package test injected with `go test -overlay`, nothing is written under /repo),
//   - evaluates the violated clause concretely (mathematical integers: math/big) on the inputs and the real outputs,
// and prints REPLAY-VIOLATION when the clause is false (or, for a safety obligation, when the call panics).  A clause
// that mentions anything the generated test cannot see (ghost state, let-bound call results, locals) does not compile
// and the obligation is reported without a failing input, as before.

import (
	"bytes"
	"fmt"
	"go/ast"
	"go/token"
	"go/types"
	"os"
	"path/filepath"
	"strings"

	"golang.org/x/tools/go/ssa"
)

type ReplayLeaf struct {
	Path string // Go l-value / expression in the generated test: h.DataSize, len(buf), buf[3]
	Kind string // int | bool | strlen | slicelen | byte
	Term Term
}

type replayParam struct {
	Name    string
	Type    string // type expression relative to the package
	Ptr     bool   // pointer to Type: built with new(Type)
	Slice   bool   // []byte-like: built with make
	String  bool
	Variadc bool
}

type AutoReplay struct {
	Mod, PkgRel, PkgName string
	Call                 string // "Name" or "<recv>.Name"
	Params               []replayParam
	NResults             int
	ResultNames          []string
	ErrLast              bool
	Leaves               []ReplayLeaf
	Imports              map[string]string // name -> path available to clauses (imports of the package)
	Method               bool
	Relaxed              bool              // some struct field could not be built and stays zero: no safety replays
	Outer                []replayParam     // option-constructor pattern: Call(Outer...) yields the function literal under replay
}

func modOfPkg(path string) (mod, rel string, ok bool) {
	switch {
	case path == "github.com/ipld/go-car/v2":
		return "v2", ".", true
	case strings.HasPrefix(path, "github.com/ipld/go-car/v2/"):
		return "v2", strings.TrimPrefix(path, "github.com/ipld/go-car/v2/"), true
	case path == "github.com/ipld/go-car":
		return ".", ".", true
	case strings.HasPrefix(path, "github.com/ipld/go-car/cmd"):
		return "", "", false
	case strings.HasPrefix(path, "github.com/ipld/go-car/"):
		return ".", strings.TrimPrefix(path, "github.com/ipld/go-car/"), true
	}
	return "", "", false
}

// leafable enumerates the scalar leaves of a value of type t reachable under Go path p.
func leafable(pkg *types.Package, t types.Type, p string, depth int, out *[]ReplayLeaf, relaxed *bool) bool {
	if depth > 4 {
		return false
	}
	switch u := t.Underlying().(type) {
	case *types.Basic:
		switch {
		case u.Info()&types.IsInteger != 0:
			*out = append(*out, ReplayLeaf{Path: p, Kind: "int"})
			return true
		case u.Info()&types.IsBoolean != 0:
			*out = append(*out, ReplayLeaf{Path: p, Kind: "bool"})
			return true
		case u.Info()&types.IsString != 0:
			*out = append(*out, ReplayLeaf{Path: "len(" + p + ")", Kind: "strlen"})
			return true
		}
		return false
	case *types.Struct:
		if n, ok := t.(*types.Named); ok {
			if n.Obj().Pkg() != pkg {
				return false
			}
		}
		for i := 0; i < u.NumFields(); i++ {
			f := u.Field(i)
			if f.Name() == "_" {
				continue
			}
			var sub []ReplayLeaf
			if !leafable(pkg, f.Type(), p+"."+f.Name(), depth+1, &sub, relaxed) {
				// a field the driver cannot build stays zero: the replay may then fail to reproduce, never wrongly succeed
				// (safety replays, where a nil field could panic on its own, are switched off for such functions)
				*relaxed = true
				continue
			}
			*out = append(*out, sub...)
		}
		return true
	case *types.Slice:
		if b, ok := u.Elem().Underlying().(*types.Basic); ok && b.Kind() == types.Uint8 {
			*out = append(*out, ReplayLeaf{Path: "len(" + p + ")", Kind: "slicelen"})
			return true
		}
		return false
	}
	return false
}

func relType(pkg *types.Package, t types.Type) (string, bool) {
	ok := true
	s := types.TypeString(t, func(p *types.Package) string {
		if p == pkg {
			return ""
		}
		ok = false
		return p.Name()
	})
	return s, ok
}

// paramsOf turns the parameters of fn into driver parameters and leaves; ok is false when one cannot be built.
func (ar *AutoReplay) paramsOf(pkg *types.Package, fn *ssa.Function, prefix string, leaves *[]ReplayLeaf) ([]replayParam, bool) {
	sig := fn.Signature
	var out []replayParam
	for i, p := range fn.Params {
		name := p.Name()
		if name == "" || name == "_" {
			name = fmt.Sprintf("%sgcvp%d", prefix, i)
		}
		rp := replayParam{Name: name}
		t := p.Type()
		if pt, isP := t.Underlying().(*types.Pointer); isP {
			if _, isS := pt.Elem().Underlying().(*types.Struct); !isS {
				return nil, false
			}
			rp.Ptr = true
			t = pt.Elem()
		}
		ts, ok := relType(pkg, t)
		if !ok {
			return nil, false
		}
		rp.Type = ts
		if _, isSl := t.Underlying().(*types.Slice); isSl {
			rp.Slice = true
			if sig.Variadic() && i == len(fn.Params)-1 {
				return nil, false // variadic value functions are not supported
			}
		}
		if b, isB := t.Underlying().(*types.Basic); isB && b.Info()&types.IsString != 0 {
			rp.String = true
		}
		if p.Name() == "" || p.Name() == "_" {
			// a blank parameter cannot influence the function: zero value, no leaves
			var dummy []ReplayLeaf
			if !leafable(pkg, t, name, 0, &dummy, new(bool)) {
				return nil, false
			}
		} else if !leafable(pkg, t, name, 0, leaves, &ar.Relaxed) {
			return nil, false
		}
		out = append(out, rp)
	}
	return out, true
}

func plainSourceFunc(fn *ssa.Function) bool {
	return fn != nil && fn.Pkg != nil && fn.Parent() == nil && fn.Object() != nil && fn.Signature.TypeParams() == nil &&
		fn.Signature.RecvTypeParams() == nil && fn.Name() != "init" && !strings.Contains(fn.Name(), "$")
}

// buildAutoReplay is called right after setupEntry of the final run; it returns nil when the function is not a
// value function in the sense above.  Besides plain functions and methods it recognises the option-constructor
// pattern: the single function literal of a value function whose only result is that literal (UseDataPadding(p)
// returns func(o *Options)); the driver then calls Outer(args)(literal args).
func (fe *FnExec) buildAutoReplay(fr *frame) *AutoReplay {
	fn := fr.fn
	outer := fn.Parent()
	if outer != nil {
		if !plainSourceFunc(outer) || len(outer.AnonFuncs) != 1 || outer.Signature.Recv() != nil || outer.Signature.Results().Len() != 1 ||
			!types.Identical(outer.Signature.Results().At(0).Type().Underlying(), fn.Signature) {
			return nil
		}
		for _, fv := range fn.FreeVars {
			found := false
			for _, p := range outer.Params {
				if p.Name() == fv.Name() {
					found = true
				}
			}
			if !found {
				return nil
			}
		}
	} else if !plainSourceFunc(fn) {
		return nil
	}
	top := fn
	if outer != nil {
		top = outer
	}
	pkg := top.Pkg.Pkg
	mod, rel, ok := modOfPkg(pkg.Path())
	if !ok {
		return nil
	}
	ar := &AutoReplay{Mod: mod, PkgRel: rel, PkgName: pkg.Name(), Imports: map[string]string{}}
	for _, ip := range pkg.Imports() {
		ar.Imports[ip.Name()] = ip.Path()
	}
	sig := fn.Signature
	var leaves []ReplayLeaf
	if outer != nil {
		strict := false
		save := ar.Relaxed
		if ar.Outer, ok = ar.paramsOf(pkg, outer, "outer_", &leaves); !ok {
			return nil
		}
		strict, ar.Relaxed = ar.Relaxed, save
		if strict {
			return nil
		}
		// only the captured parameters have a value in the literal's unit
		var kept []ReplayLeaf
		for _, lf := range leaves {
			root := strings.TrimSuffix(strings.TrimPrefix(lf.Path, "len("), ")")
			if k := strings.IndexAny(root, ".["); k >= 0 {
				root = root[:k]
			}
			for _, fv := range fn.FreeVars {
				if fv.Name() == root {
					kept = append(kept, lf)
					break
				}
			}
		}
		leaves = kept
	}
	if ar.Params, ok = ar.paramsOf(pkg, fn, "", &leaves); !ok {
		return nil
	}
	if len(leaves) > 64 {
		return nil
	}
	// terms of the leaves at entry
	for i := range leaves {
		x, err := parseCExpr(leaves[i].Path)
		if err != nil {
			return nil
		}
		ctx := fe.ctxFor(fr, fr.entry)
		saved := fe.clauseErr
		fe.clauseErr = ""
		nw := len(fe.warns)
		v := ctx.eval(x.E)
		bad := fe.clauseErr != ""
		fe.clauseErr = saved
		fe.warns = fe.warns[:nw]
		if bad {
			return nil
		}
		switch vv := v.(type) {
		case IntV:
			leaves[i].Term = vv.T
		case BoolV:
			leaves[i].Term = tIte(vv.T, "1", "0")
		default:
			return nil
		}
	}
	ar.Leaves = leaves
	switch {
	case outer != nil:
		var as []string
		for _, p := range ar.Outer {
			as = append(as, p.Name)
		}
		ar.Call = outer.Name() + "(" + strings.Join(as, ", ") + ")"
	case sig.Recv() != nil:
		ar.Call = ar.Params[0].Name + "." + fn.Name()
		ar.Method = true
	default:
		ar.Call = fn.Name()
	}
	ar.NResults = sig.Results().Len()
	for i := 0; i < ar.NResults; i++ {
		r := sig.Results().At(i)
		ar.ResultNames = append(ar.ResultNames, r.Name())
		if i == ar.NResults-1 && types.Identical(r.Type(), types.Universe.Lookup("error").Type()) {
			ar.ErrLast = true
		}
	}
	return ar
}

// ---------------------------------------------------------------------------
// clause -> Go

type goTr struct {
	ar      *AutoReplay
	params  map[string]bool
	imports map[string]bool
	err     error
}

func (g *goTr) fail(format string, a ...interface{}) string {
	if g.err == nil {
		g.err = fmt.Errorf(format, a...)
	}
	return "false"
}

func (g *goTr) cexpr(x *CExpr, old bool) string {
	switch x.Op {
	case "==>":
		return "(!(" + g.cexpr(x.L, old) + ") || (" + g.cexpr(x.R, old) + "))"
	case "<==>":
		return "((" + g.cexpr(x.L, old) + ") == (" + g.cexpr(x.R, old) + "))"
	}
	return g.expr(x.E, old)
}

func (g *goTr) expr(e ast.Expr, old bool) string {
	switch x := e.(type) {
	case *ast.ParenExpr:
		return "(" + g.expr(x.X, old) + ")"
	case *ast.BasicLit:
		if x.Kind == token.INT {
			return "gcvLit(\"" + x.Value + "\")"
		}
		return g.fail("literal %s", x.Value)
	case *ast.Ident:
		switch x.Name {
		case "true", "false", "nil":
			return x.Name
		}
		if g.params[x.Name] {
			if old {
				return "old_" + x.Name
			}
			return x.Name
		}
		if old {
			switch {
			case x.Name == "result" || x.Name == "err" || strings.HasPrefix(x.Name, "result"):
				return g.fail("result inside old()")
			}
		}
		return x.Name // results, package-level names; anything else fails to compile and the replay is abandoned
	case *ast.UnaryExpr:
		switch x.Op {
		case token.NOT:
			return "!(" + g.expr(x.X, old) + ")"
		case token.SUB:
			return "gcvAr(\"-\", gcvLit(\"0\"), " + g.expr(x.X, old) + ")"
		}
		return g.fail("unary %s", x.Op)
	case *ast.BinaryExpr:
		l, r := g.expr(x.X, old), g.expr(x.Y, old)
		switch x.Op {
		case token.LAND:
			return "(" + l + " && " + r + ")"
		case token.LOR:
			return "(" + l + " || " + r + ")"
		case token.EQL, token.NEQ, token.LSS, token.LEQ, token.GTR, token.GEQ:
			return "gcvCmp(\"" + x.Op.String() + "\", " + l + ", " + r + ")"
		case token.ADD, token.SUB, token.MUL, token.QUO, token.REM:
			return "gcvAr(\"" + x.Op.String() + "\", " + l + ", " + r + ")"
		}
		return g.fail("operator %s", x.Op)
	case *ast.SelectorExpr:
		if id, ok := x.X.(*ast.Ident); ok && !g.params[id.Name] {
			if _, isImp := g.ar.Imports[id.Name]; isImp {
				g.imports[id.Name] = true
				return id.Name + "." + x.Sel.Name
			}
		}
		return g.expr(x.X, old) + "." + x.Sel.Name
	case *ast.StarExpr:
		return "(*" + g.expr(x.X, old) + ")"
	case *ast.IndexExpr:
		return g.expr(x.X, old) + "[gcvInt(" + g.expr(x.Index, old) + ")]"
	case *ast.CallExpr:
		id, ok := x.Fun.(*ast.Ident)
		if !ok {
			return g.fail("call of %T", x.Fun)
		}
		arg := func(i int) string {
			if i >= len(x.Args) {
				return g.fail("%s: missing argument", id.Name)
			}
			return g.expr(x.Args[i], old)
		}
		switch id.Name {
		case "old":
			if i := len(x.Args); i != 1 {
				return g.fail("old/%d", i)
			}
			return g.expr(x.Args[0], true)
		case "cur":
			return arg(0)
		case "len":
			return "len(" + arg(0) + ")"
		case "implies":
			return "(!(" + arg(0) + ") || (" + arg(1) + "))"
		case "iff":
			return "((" + arg(0) + ") == (" + arg(1) + "))"
		case "ite":
			return "gcvIte(" + arg(0) + ", " + arg(1) + ", " + arg(2) + ")"
		case "wrap_u64", "wrap_s64", "wrap_u32", "wrap_s32", "wrap_u16", "wrap_s16", "wrap_u8", "wrap_s8":
			return "gcvWrap(\"" + strings.TrimPrefix(id.Name, "wrap_") + "\", " + arg(0) + ")"
		case "vsize":
			return "gcvVsize(" + arg(0) + ")"
		case "uint64", "int64", "int", "uint32", "int32", "uint", "uint8", "byte", "uint16", "int16", "int8":
			return arg(0) // conversions are the identity in contracts
		}
		return g.fail("spec function %s has no concrete counterpart", id.Name)
	}
	return g.fail("expression %T", e)
}

const replayHelpers = `
func gcvLit(s string) *big.Int { n, _ := new(big.Int).SetString(s, 0); return n }

func gcvBig(x any) (*big.Int, bool) {
	switch v := x.(type) {
	case *big.Int:
		return v, true
	case nil:
		return nil, false
	}
	rv := reflect.ValueOf(x)
	switch rv.Kind() {
	case reflect.Int, reflect.Int8, reflect.Int16, reflect.Int32, reflect.Int64:
		return big.NewInt(rv.Int()), true
	case reflect.Uint, reflect.Uint8, reflect.Uint16, reflect.Uint32, reflect.Uint64, reflect.Uintptr:
		return new(big.Int).SetUint64(rv.Uint()), true
	}
	return nil, false
}

func gcvInt(x any) int {
	b, ok := gcvBig(x)
	if !ok || !b.IsInt64() {
		panic("gcv: index is not an integer")
	}
	return int(b.Int64())
}

func gcvIsNil(x any) bool {
	if x == nil {
		return true
	}
	rv := reflect.ValueOf(x)
	switch rv.Kind() {
	case reflect.Ptr, reflect.Map, reflect.Slice, reflect.Func, reflect.Interface, reflect.Chan:
		return rv.IsNil()
	}
	return false
}

func gcvCmp(op string, a, b any) bool {
	x, okx := gcvBig(a)
	y, oky := gcvBig(b)
	if okx && oky {
		c := x.Cmp(y)
		switch op {
		case "==":
			return c == 0
		case "!=":
			return c != 0
		case "<":
			return c < 0
		case "<=":
			return c <= 0
		case ">":
			return c > 0
		case ">=":
			return c >= 0
		}
	}
	var eq bool
	switch {
	case gcvIsNil(a) || gcvIsNil(b):
		eq = gcvIsNil(a) && gcvIsNil(b)
	case reflect.TypeOf(a).Comparable() && reflect.TypeOf(b).Comparable():
		eq = a == b
	default:
		eq = reflect.DeepEqual(a, b)
	}
	switch op {
	case "==":
		return eq
	case "!=":
		return !eq
	}
	panic("gcv: ordering of non-integers")
}

func gcvAr(op string, a, b any) *big.Int {
	x, okx := gcvBig(a)
	y, oky := gcvBig(b)
	if !okx || !oky {
		panic("gcv: arithmetic on non-integers")
	}
	r := new(big.Int)
	switch op {
	case "+":
		return r.Add(x, y)
	case "-":
		return r.Sub(x, y)
	case "*":
		return r.Mul(x, y)
	case "/":
		return r.Quo(x, y)
	case "%":
		return r.Rem(x, y)
	}
	panic("gcv: operator " + op)
}

func gcvIte(c bool, a, b any) any {
	if c {
		return a
	}
	return b
}

func gcvWrap(kind string, a any) *big.Int {
	x, ok := gcvBig(a)
	if !ok {
		panic("gcv: wrap of a non-integer")
	}
	var bits uint
	fmt.Sscanf(kind[1:], "%d", &bits)
	m := new(big.Int).Lsh(big.NewInt(1), bits)
	r := new(big.Int).Mod(x, m)
	if kind[0] == 's' && r.Cmp(new(big.Int).Rsh(m, 1)) >= 0 {
		r.Sub(r, m)
	}
	return r
}

func gcvVsize(a any) *big.Int {
	x, ok := gcvBig(a)
	if !ok || x.Sign() < 0 {
		panic("gcv: vsize of a non-natural")
	}
	n := int64(1)
	for y := new(big.Int).Rsh(x, 7); y.Sign() > 0; y.Rsh(y, 7) {
		n++
	}
	return big.NewInt(n)
}

type gcvInteger interface {
	~int | ~int8 | ~int16 | ~int32 | ~int64 | ~uint | ~uint8 | ~uint16 | ~uint32 | ~uint64 | ~uintptr
}

func gcvSet[T gcvInteger](p *T, s string) {
	n := gcvLit(s)
	if n.Sign() >= 0 {
		*p = T(n.Uint64())
	} else {
		*p = T(n.Int64())
	}
}

func gcvSetBool[T ~bool](p *T, s string) { *p = T(s != "0") }
`

// genTest renders the replay test.  clause == nil: safety replay (the call must not panic).
func (ar *AutoReplay) genTest(values []string, clause *CExpr, obligation string, byteVals map[string][]byte) (string, error) {
	g := &goTr{ar: ar, params: map[string]bool{}, imports: map[string]bool{}}
	for _, p := range append(append([]replayParam(nil), ar.Outer...), ar.Params...) {
		g.params[p.Name] = true
	}
	cl := "true"
	if clause != nil {
		cl = g.cexpr(clause, false)
		if g.err != nil {
			return "", g.err
		}
	}
	var b bytes.Buffer
	fmt.Fprintf(&b, "package %s\n\nimport (\n\t\"fmt\"\n\t\"math/big\"\n\t\"reflect\"\n\t\"testing\"\n", ar.PkgName)
	for _, n := range sortedKeys(boolMapToAny(g.imports)) {
		switch ar.Imports[n] {
		case "fmt", "math/big", "reflect", "testing":
			continue
		}
		fmt.Fprintf(&b, "\t%s %q\n", n, ar.Imports[n])
	}
	b.WriteString(")\n\nvar _ = fmt.Sprint\nvar _ = reflect.DeepEqual\nvar _ = big.NewInt\n")
	b.WriteString(replayHelpers)
	fmt.Fprintf(&b, "\nfunc TestGcvAutoReplay(t *testing.T) {\n")
	// inputs
	lens := map[string]string{}
	for i, lf := range ar.Leaves {
		if lf.Kind == "slicelen" || lf.Kind == "strlen" {
			lens[strings.TrimSuffix(strings.TrimPrefix(lf.Path, "len("), ")")] = values[i]
		}
	}
	for _, p := range append(append([]replayParam(nil), ar.Outer...), ar.Params...) {
		switch {
		case p.Ptr:
			fmt.Fprintf(&b, "\t%s := new(%s)\n", p.Name, p.Type)
		default:
			fmt.Fprintf(&b, "\tvar %s %s\n", p.Name, p.Type)
		}
		fmt.Fprintf(&b, "\t_ = %s\n", p.Name)
	}
	for i, lf := range ar.Leaves {
		switch lf.Kind {
		case "int":
			fmt.Fprintf(&b, "\tgcvSet(&%s, %q)\n", lf.Path, values[i])
		case "bool":
			fmt.Fprintf(&b, "\tgcvSetBool(&%s, %q)\n", lf.Path, values[i])
		case "slicelen":
			path := strings.TrimSuffix(strings.TrimPrefix(lf.Path, "len("), ")")
			if bv, ok := byteVals[path]; ok {
				fmt.Fprintf(&b, "\t%s = %#v\n", path, bv)
			} else {
				fmt.Fprintf(&b, "\t%s = make([]byte, %s)\n", path, values[i])
			}
		case "strlen":
			path := strings.TrimSuffix(strings.TrimPrefix(lf.Path, "len("), ")")
			fmt.Fprintf(&b, "\t{\n\t\tbs := make([]byte, %s)\n\t\tfor i := range bs {\n\t\t\tbs[i] = 'a'\n\t\t}\n\t\tgcvStr := string(bs)\n\t\treflect.ValueOf(&%s).Elem().SetString(gcvStr)\n\t}\n", values[i], path)
		}
	}
	// snapshots for old()
	for _, p := range append(append([]replayParam(nil), ar.Outer...), ar.Params...) {
		if p.Ptr {
			fmt.Fprintf(&b, "\told_%s := new(%s)\n\t*old_%s = *%s\n\t_ = old_%s\n", p.Name, p.Type, p.Name, p.Name, p.Name)
		} else if p.Slice {
			fmt.Fprintf(&b, "\told_%s := append(%s(nil), %s...)\n\t_ = old_%s\n", p.Name, p.Type, p.Name, p.Name)
		} else {
			fmt.Fprintf(&b, "\told_%s := %s\n\t_ = old_%s\n", p.Name, p.Name, p.Name)
		}
	}
	fmt.Fprintf(&b, "\tinputs := fmt.Sprintf(\"%%+v\", []any{")
	for i, p := range append(append([]replayParam(nil), ar.Outer...), ar.Params...) {
		if i > 0 {
			b.WriteString(", ")
		}
		if p.Ptr {
			b.WriteString("*")
		}
		b.WriteString("old_" + p.Name)
	}
	b.WriteString("})\n")
	// the call
	var args []string
	start := 0
	if ar.Method {
		start = 1
	}
	for _, p := range ar.Params[start:] {
		args = append(args, p.Name)
	}
	call := ar.Call + "(" + strings.Join(args, ", ") + ")"
	var res []string
	for i := 0; i < ar.NResults; i++ {
		res = append(res, fmt.Sprintf("result%d", i))
	}
	if clause == nil {
		fmt.Fprintf(&b, "\tdefer func() {\n\t\tif r := recover(); r != nil {\n\t\t\tt.Fatalf(\"REPLAY-VIOLATION %%s: the real function panics on inputs %%s: %%v\", %q, inputs, r)\n\t\t}\n\t}()\n", obligation)
	}
	if len(res) > 0 {
		fmt.Fprintf(&b, "\t%s := %s\n", strings.Join(res, ", "), call)
		for _, r := range res {
			fmt.Fprintf(&b, "\t_ = %s\n", r)
		}
		fmt.Fprintf(&b, "\tresult := result0\n\t_ = result\n")
		if ar.ErrLast {
			fmt.Fprintf(&b, "\terr := result%d\n\t_ = err\n", ar.NResults-1)
		}
		for i, n := range ar.ResultNames {
			if n != "" && n != "_" && n != "result" && !(n == "err" && ar.ErrLast) && !g.params[n] {
				fmt.Fprintf(&b, "\t%s := result%d\n\t_ = %s\n", n, i, n)
			}
		}
		fmt.Fprintf(&b, "\toutputs := fmt.Sprintf(\"%%+v\", []any{%s})\n", strings.Join(res, ", "))
	} else {
		fmt.Fprintf(&b, "\t%s\n\toutputs := \"-\"\n", call)
	}
	if clause != nil {
		fmt.Fprintf(&b, "\tif !(%s) {\n\t\tt.Fatalf(\"REPLAY-VIOLATION %%s: clause %%q is false on the real code: inputs %%s outputs %%s\", %q, %q, inputs, outputs)\n\t}\n", cl, obligation, clause.Src)
	}
	fmt.Fprintf(&b, "\tfmt.Println(\"REPLAY-OK: the real function satisfies the clause on inputs\", inputs, \"outputs\", outputs)\n}\n")
	return b.String(), nil
}

func boolMapToAny(m map[string]bool) map[string]bool { return m }

// getValues asks the solver for the values of the leaf terms under a model refuting o.
func (s *Script) getValues(o *Obligation, terms []Term, timeoutS, seed int) ([]string, string) {
	var ts []string
	for _, t := range terms {
		ts = append(ts, string(t))
	}
	text := s.text(o, true, ts)
	for _, sp := range solvers[:1] {
		out, _ := runSolver(sp, text, timeoutS, seed, 60e9)
		if firstLine(out) != "sat" {
			return nil, out
		}
		rest := out[strings.Index(out, "\n")+1:]
		vals, ok := parseValuePairs(rest, len(terms))
		if ok {
			return vals, out
		}
		return nil, out
	}
	return nil, ""
}

// parseValuePairs reads ((t1 v1) (t2 v2) ...) and returns the values as decimal strings.
func parseValuePairs(s string, n int) ([]string, bool) {
	s = strings.TrimSpace(s)
	if !strings.HasPrefix(s, "(") {
		return nil, false
	}
	// split the top-level list into elements
	elems := splitSexp(s[1:strings.LastIndex(s, ")")])
	if len(elems) != n {
		return nil, false
	}
	var out []string
	for _, e := range elems {
		e = strings.TrimSpace(e)
		if !strings.HasPrefix(e, "(") {
			return nil, false
		}
		inner := splitSexp(e[1 : len(e)-1])
		if len(inner) != 2 {
			return nil, false
		}
		v := strings.TrimSpace(inner[1])
		if strings.HasPrefix(v, "(-") {
			v = "-" + strings.TrimSpace(strings.TrimSuffix(strings.TrimPrefix(v, "(-"), ")"))
		}
		if v == "" || strings.ContainsAny(v, "() ") {
			return nil, false
		}
		out = append(out, v)
	}
	return out, true
}

func splitSexp(s string) []string {
	var out []string
	depth, start := 0, -1
	inBar := false
	for i := 0; i < len(s); i++ {
		c := s[i]
		if c == '|' {
			inBar = !inBar
		}
		if inBar {
			if start < 0 {
				start = i
			}
			continue
		}
		switch {
		case c == '(':
			if depth == 0 && start < 0 {
				start = i
			}
			depth++
		case c == ')':
			depth--
			if depth == 0 {
				out = append(out, s[start:i+1])
				start = -1
			}
		case c == ' ' || c == '\n' || c == '\t' || c == '\r':
			if depth == 0 && start >= 0 {
				out = append(out, s[start:i])
				start = -1
			}
		default:
			if start < 0 {
				start = i
			}
		}
	}
	if start >= 0 {
		out = append(out, s[start:])
	}
	return out
}

// autoReplay tries to reproduce the refuted obligation a on the real code.
func autoReplay(cr *checkRun, a *AggOb, timeoutS, seed int) (bool, string) {
	var fres *FuncResult
	for _, r := range cr.results {
		if r.Key == a.Func || r.Name == a.Func {
			fres = r
		}
	}
	if fres == nil || fres.Auto == nil || fres.Script == nil {
		return false, ""
	}
	ar := fres.Auto
	var info bytes.Buffer
	for _, p := range a.Parts {
		if p.Status != "failed" {
			continue
		}
		var clause *CExpr
		safety := isSafetyLabel(p.Label) && !strings.HasPrefix(p.Label, "alloc[") && !ar.Relaxed
		if strings.HasPrefix(p.Label, "post:") {
			clause = p.Clause
			if clause == nil {
				continue
			}
		} else if !safety {
			continue
		}
		var terms []Term
		for _, lf := range ar.Leaves {
			terms = append(terms, lf.Term)
		}
		vals, sout := fres.Script.getValues(p, terms, timeoutS, seed)
		if vals == nil {
			fmt.Fprintf(&info, "%s: the solver gave no values for the inputs (%s)\n", p.Name, firstLine(sout))
			continue
		}
		tooBig := false
		for i, lf := range ar.Leaves {
			if lf.Kind == "slicelen" || lf.Kind == "strlen" {
				if len(vals[i]) > 7 {
					tooBig = true
				}
			}
		}
		if tooBig {
			fmt.Fprintf(&info, "%s: the model needs an input of more than 10^7 bytes; not replayed\n", p.Name)
			continue
		}
		src, err := ar.genTest(vals, clause, p.Name, nil)
		if err != nil {
			fmt.Fprintf(&info, "%s: the clause cannot be evaluated on concrete values (%v)\n", p.Name, err)
			continue
		}
		tmp, err := os.MkdirTemp("", "gcv-auto-")
		if err != nil {
			continue
		}
		file := filepath.Join(tmp, "zz_gcv_auto_replay_test.go")
		os.WriteFile(file, []byte(src), 0o644)
		v, out := runReplayFile(replayEntry{Mod: ar.Mod, Pkg: ar.PkgRel, Test: "TestGcvAutoReplay"}, file, nil)
		os.RemoveAll(tmp)
		if len(out) > 3000 {
			out = out[:3000]
		}
		var ins []string
		for i, lf := range ar.Leaves {
			ins = append(ins, lf.Path+"="+vals[i])
		}
		fmt.Fprintf(&info, "%s: generated driver called the real %s with %s:\n%s\n", p.Name, ar.Call, strings.Join(ins, " "), out)
		if v {
			if i := strings.Index(src, "func TestGcvAutoReplay"); i >= 0 {
				src = src[i:]
			}
			return true, info.String() + "\n--- generated driver (helpers omitted) ---\n" + src
		}
	}
	return false, info.String()
}

var _ = ssa.NewProgram
