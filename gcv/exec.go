package main

// Symbolic execution of one go/ssa function (NaiveForm) with state merging at
// joins and loops cut at their heads.  DESIGN.md §3.2.

import (
	"os"
	"fmt"
	"go/constant"
	"go/token"
	"go/types"
	"sort"
	"strings"

	"golang.org/x/tools/go/ssa"
)

// guardRec: an object stored in a field declared `guardeduse` and the object that owns the field.
type guardRec struct {
	this PtrV
	g    Clause
	name string
}

type deferRec struct {
	instr *ssa.Defer
	guard Term
	args  []Val
	fn    Val
}

type State struct {
	pc     Term
	cells  map[*ssa.Alloc]Val
	heap   map[string]Term
	defers []deferRec
}

func (s *State) clone() *State {
	n := &State{pc: s.pc, cells: make(map[*ssa.Alloc]Val, len(s.cells)), heap: make(map[string]Term, len(s.heap))}
	for k, v := range s.cells {
		n.cells[k] = v
	}
	for k, v := range s.heap {
		n.heap[k] = v
	}
	n.defers = append([]deferRec(nil), s.defers...)
	return n
}

type loopInfo struct {
	head       *ssa.BasicBlock
	ord        int
	spec       *LoopSpec
	havocCells map[*ssa.Alloc]bool
	havocPaths map[*ssa.Alloc]map[string]bool // for struct cells: the leaf paths that change ("" = whole cell)
	havocHeap  map[string]string              // name -> sort
	headState  *State
	dec0       Term
	body       map[*ssa.BasicBlock]bool
}

type frame struct {
	fn          *ssa.Function
	con         *Contract
	name        string // obligation name prefix
	out         map[*ssa.BasicBlock]*State
	loops       map[*ssa.BasicBlock]*loopInfo
	rets        []*State
	retVals     [][]Val
	entry       *State
	binds       map[string]Val // params (entry values), receiver
	ords        map[ssa.Instruction]string
	callIdx     map[string]ssa.CallInstruction
	pseudoSites map[string]bool // map updates / lookups addressable like call sites
	pseudoVals  map[string]ssa.Value // map lookups: the value read (for `let x := call[maplookup#k]`)
	inlined     bool
	depth       int
}

type FnExec struct {
	sharedN     int // ordinal of the next shared[..] obligation (writes to package-level state)
	okRefs map[Term]bool      // interface values produced by `v, ok := x.(T)`: nil when the assertion failed
	callPC map[*ssa.Call]Term // path condition under which each call of the top frame was executed (error-propagation family)
	eng           *Engine
	script        *Script
	regs          map[ssa.Value]Val
	nfresh        int
	heapSort      map[string]string
	quiet         bool // discovery mode: no obligations are recorded
	sentinel      map[*ssa.Global]int
	globals       map[*ssa.Global]Val
	tids          map[string]int
	unknown       map[string]int // callees without contract
	used          map[string]bool
	abstracted    map[string]int
	allocN        int
	errs          []string
	changed       bool // discovery: havoc set grew
	top           *frame
	pkg           *types.Package
	blocksReached int
	phiEdges      map[*ssa.BasicBlock][]phiEdge
	ifaceType     map[Term]types.Type // interface value term -> pointee type of the boxed pointer
	curArgTypes   []types.Type
	curHavocType  types.Type
	clauseErr     string // error met while evaluating the clause about to be asserted / assumed
	evalDepth     int
	warns         []string
	owned         map[Term]bool
	wraps         map[Term]Val        // wrapper object -> the object it reads / writes through
	hw            Term                // current allocation watermark: every object allocated so far has an id <= hw
	memVersion    int            // bumped whenever slice contents may have changed (element store, call, loop head)
	elemCache     map[string]Val // scalar slice elements read in the current memVersion
	guardPtr      map[ssa.Value]*guardRec // address of a use-guarded field
	guardedVals   map[Term]*guardRec      // object loaded from a use-guarded field
	boxed         map[Term]Val        // interface value term -> the boxed pointer value (pointers to local cells)
	boxType       map[Term]types.Type // interface value term -> static type of the boxed value
	cbInfo        map[*ssa.Function]*cbState
	curInstr      ssa.Instruction
}

func (fe *FnExec) fresh(hint, sort string) Term {
	fe.nfresh++
	n := sym(fmt.Sprintf("%s!%d", hint, fe.nfresh))
	fe.script.Decls = append(fe.script.Decls, fmt.Sprintf("(declare-const %s %s)", n, sort))
	return n
}

func (fe *FnExec) declare(name, sort string) Term {
	n := sym(name)
	fe.script.Decls = append(fe.script.Decls, fmt.Sprintf("(declare-const %s %s)", n, sort))
	return n
}

func (fe *FnExec) assume(t Term, why string) {
	if fe.clauseErr != "" {
		// a clause that cannot be evaluated is not assumed (sound: fewer facts); an auxiliary fact produced while a
		// clause is still being evaluated must not swallow the failure of that clause
		if fe.evalDepth == 0 {
			fe.clauseErr = ""
		}
		return
	}
	if t == "true" {
		return
	}
	fe.script.Asms = append(fe.script.Asms, Asm{T: t, Why: why, NDecl: len(fe.script.Decls)})
}

func (fe *FnExec) oblige(fr *frame, label string, props []string, pc, goal Term, pos token.Pos, note string) {
	if fe.clauseErr != "" {
		// a clause that cannot be evaluated against the current code fails (closed), as this obligation only
		goal = "false"
		note = "CANNOT BE EVALUATED: " + fe.clauseErr + " | " + note
		fe.clauseErr = ""
	}
	if fe.quiet {
		return
	}
	if goal == "true" {
		// trivially true goals are still counted (discharged syntactically)
	}
	o := &Obligation{
		Name:  fr.name + "#" + label,
		Func:  fr.name,
		Label: label,
		Props: props,
		PC:    pc,
		Goal:  goal,
		NAsm:  len(fe.script.Asms),
		NDecl: len(fe.script.Decls),
		Note:  note,
	}
	if pos.IsValid() {
		p := fe.eng.fset.Position(pos)
		o.Where = fmt.Sprintf("%s:%d", strings.TrimPrefix(p.Filename, repoRoot+"/"), p.Line)
	}
	fe.script.Obs = append(fe.script.Obs, o)
}

func (fe *FnExec) errorf(format string, a ...interface{}) {
	fe.errs = append(fe.errs, fmt.Sprintf(format, a...))
}

// ---------------------------------------------------------------------------
// values

func (fe *FnExec) freshVal(t types.Type, hint string) Val {
	switch u := t.Underlying().(type) {
	case *types.Basic:
		switch {
		case u.Info()&types.IsBoolean != 0:
			return BoolV{fe.fresh(hint, "Bool")}
		case u.Info()&types.IsString != 0:
			s := fe.fresh(hint, "Int")
			fe.assume(tAnd(sx("<=", "0", sx("strlen", s)), sx("<=", sx("strlen", s), maxLen)), "string length range")
			return StrV{s}
		case u.Info()&types.IsInteger != 0:
			k, _ := intKindOf(t)
			x := fe.fresh(hint, "Int")
			fe.assume(k.inRange(x), "range of "+t.String())
			return IntV{x}
		case u.Kind() == types.UnsafePointer || u.Kind() == types.UntypedNil:
			return RefV{fe.fresh(hint, "Int")}
		default:
			return RefV{fe.fresh(hint, "Int")} // floats, complex: opaque
		}
	case *types.Slice:
		r := fe.fresh(hint+".ref", "Int")
		l := fe.fresh(hint+".len", "Int")
		c := fe.fresh(hint+".cap", "Int")
		fe.assume(tAnd(sx("<=", "0", l), sx("<=", l, c), sx("<=", c, maxLen), sx("<=", "0", r), tImp(tEq(r, "0"), tEq(c, "0"))), "slice shape")
		return SliceV{Ref: r, Len: l, Cap: c, ElemT: u.Elem()}
	case *types.Struct:
		sv := StructV{T: t}
		for i := 0; i < u.NumFields(); i++ {
			sv.F = append(sv.F, fe.freshVal(u.Field(i).Type(), hint+"."+u.Field(i).Name()))
		}
		return sv
	case *types.Pointer:
		b := fe.fresh(hint, "Int")
		fe.assume(sx("<=", "0", b), "ref")
		fe.typedRef(b, u.Elem())
		return PtrV{Base: b, Prefix: typeName(u.Elem()), Pointee: u.Elem()}
	case *types.Tuple:
		tv := TupleV{}
		for i := 0; i < u.Len(); i++ {
			tv.E = append(tv.E, fe.freshVal(u.At(i).Type(), fmt.Sprintf("%s.%d", hint, i)))
		}
		return tv
	case *types.Array:
		return ArrayV{Ref: fe.fresh(hint, "Int"), N: u.Len()}
	case *types.Interface:
		r := fe.fresh(hint, "Int")
		fe.assume(sx("<=", "0", r), "ref")
		if _, named := t.(*types.Named); named && u.NumMethods() > 0 {
			// a non-nil value of static interface type S has a dynamic type that implements S
			pred := "impl." + typeName(t)
			fe.eng.noteIface(pred, t)
			fe.assume(tOr(tEq(r, "0"), sx(sym(pred), sx("dyn", r))), "static interface type "+typeName(t))
		}
		return RefV{r}
	case *types.Map, *types.Chan, *types.Signature:
		r := fe.fresh(hint, "Int")
		fe.assume(sx("<=", "0", r), "ref")
		return RefV{r}
	}
	return RefV{fe.fresh(hint, "Int")}
}

func (fe *FnExec) zeroVal(t types.Type) Val {
	switch u := t.Underlying().(type) {
	case *types.Basic:
		switch {
		case u.Info()&types.IsBoolean != 0:
			return BoolV{"false"}
		case u.Info()&types.IsString != 0:
			return StrV{"0"}
		case u.Info()&types.IsInteger != 0:
			return IntV{"0"}
		}
		return RefV{"0"}
	case *types.Slice:
		return SliceV{Ref: "0", Len: "0", Cap: "0"}
	case *types.Struct:
		sv := StructV{T: t}
		for i := 0; i < u.NumFields(); i++ {
			sv.F = append(sv.F, fe.zeroVal(u.Field(i).Type()))
		}
		return sv
	case *types.Pointer:
		return PtrV{Base: "0", Prefix: typeName(u.Elem()), Pointee: u.Elem()}
	case *types.Array:
		av := ArrayV{Ref: fe.fresh("arr", "Int"), N: u.Len()}
		if u.Len() <= 8 {
			for i := int64(0); i < u.Len(); i++ {
				av.Elem = append(av.Elem, fe.zeroVal(u.Elem()))
			}
		}
		return av
	case *types.Tuple:
		tv := TupleV{}
		for i := 0; i < u.Len(); i++ {
			tv.E = append(tv.E, fe.zeroVal(u.At(i).Type()))
		}
		return tv
	}
	return RefV{"0"}
}

func valKey(v Val) string {
	switch x := v.(type) {
	case nil:
		return "nil"
	case IntV:
		return "i:" + x.T
	case BoolV:
		return "b:" + x.T
	case RefV:
		return "r:" + x.T
	case StrV:
		return "s:" + x.T
	case SliceV:
		s := "sl:" + x.Ref + "," + x.Len + "," + x.Cap
		if x.Elems != nil {
			s += "["
			for _, e := range x.Elems {
				s += valKey(e) + ";"
			}
			s += "]"
		}
		return s
	case StructV:
		s := "st{"
		for _, f := range x.F {
			s += valKey(f) + ";"
		}
		return s + "}"
	case TupleV:
		s := "tu{"
		for _, f := range x.E {
			s += valKey(f) + ";"
		}
		return s + "}"
	case ArrayV:
		s := "ar:" + x.Ref
		if x.Elem != nil {
			s += "["
			for _, e := range x.Elem {
				s += valKey(e) + ";"
			}
			s += "]"
		}
		return s
	case FuncV:
		s := fmt.Sprintf("fn:%p{", x.Fn)
		for _, b := range x.Bind {
			s += valKey(b) + ";"
		}
		return s + "}"
	case PtrV:
		if x.Cell != nil {
			return fmt.Sprintf("pc:%p%v", x.Cell, x.Path)
		}
		if x.ElemOf != nil {
			return "pe:" + x.ElemOf.Ref + "[" + x.Idx + "]"
		}
		return "ph:" + x.Prefix + "@" + x.Base
	}
	return fmt.Sprintf("?%T", v)
}

type cbState struct {
	called Term // Bool: the closure was called at least once by the callee
	last   Val  // result of its last call
}

// diffPaths lists the leaf paths at which two struct values differ ("" when they are not both structs of one shape).
func diffPaths(a, b Val, pfx string) []string {
	sa, ok1 := a.(StructV)
	sb, ok2 := b.(StructV)
	if !ok1 || !ok2 || len(sa.F) != len(sb.F) {
		if valKey(a) != valKey(b) {
			return []string{pfx}
		}
		return nil
	}
	var out []string
	for i := range sa.F {
		p := fmt.Sprintf("%s.%d", pfx, i)
		if pfx == "" {
			p = fmt.Sprintf("%d", i)
		}
		out = append(out, diffPaths(sa.F[i], sb.F[i], p)...)
	}
	return out
}

func (fe *FnExec) havocStructPaths(sv StructV, pfx string, paths map[string]bool, hint string) Val {
	st, _ := sv.T.Underlying().(*types.Struct)
	out := StructV{T: sv.T, F: append([]Val(nil), sv.F...)}
	for i := range out.F {
		p := fmt.Sprintf("%s.%d", pfx, i)
		if pfx == "" {
			p = fmt.Sprintf("%d", i)
		}
		if paths[p] {
			var ft types.Type
			if st != nil && i < st.NumFields() {
				ft = st.Field(i).Type()
			}
			if ft != nil {
				out.F[i] = fe.freshVal(ft, hint)
			}
			continue
		}
		if sub, ok := out.F[i].(StructV); ok {
			// descend only if some deeper path is marked
			deeper := false
			for k := range paths {
				if strings.HasPrefix(k, p+".") {
					deeper = true
				}
			}
			if deeper {
				out.F[i] = fe.havocStructPaths(sub, p, paths, hint)
			}
		}
	}
	return out
}

// typedRef: objects of different struct types have different ids.
func (fe *FnExec) typedRef(ref Term, pointee types.Type) {
	if _, ok := pointee.Underlying().(*types.Struct); !ok {
		return
	}
	fe.assume(tOr(tEq(ref, "0"), tEq(sx("styp", ref), tInt(int64(fe.tid(pointee))))), "static type of a struct pointer")
}

// mergeVal merges values arriving on edges with path conditions pcs.
func (fe *FnExec) mergeVal(vals []Val, pcs []Term, hint string) Val {
	k0 := valKey(vals[0])
	same := true
	for _, v := range vals[1:] {
		if valKey(v) != k0 {
			same = false
			break
		}
	}
	if same {
		return vals[0]
	}
	mergeT := func(ts []Term, sort string) Term {
		all := true
		for _, t := range ts[1:] {
			if t != ts[0] {
				all = false
			}
		}
		if all {
			return ts[0]
		}
		m := fe.fresh("m."+hint, sort)
		for i, t := range ts {
			fe.assume(tImp(pcs[i], tEq(m, t)), "merge")
		}
		return m
	}
	collect := func(f func(Val) (Term, bool)) ([]Term, bool) {
		out := make([]Term, len(vals))
		for i, v := range vals {
			t, ok := f(v)
			if !ok {
				return nil, false
			}
			out[i] = t
		}
		return out, true
	}
	switch v0 := vals[0].(type) {
	case IntV:
		if ts, ok := collect(func(v Val) (Term, bool) { x, ok := v.(IntV); return x.T, ok }); ok {
			return IntV{mergeT(ts, "Int")}
		}
	case BoolV:
		if ts, ok := collect(func(v Val) (Term, bool) { x, ok := v.(BoolV); return x.T, ok }); ok {
			return BoolV{mergeT(ts, "Bool")}
		}
	case StrV:
		if ts, ok := collect(func(v Val) (Term, bool) { x, ok := v.(StrV); return x.T, ok }); ok {
			return StrV{mergeT(ts, "Int")}
		}
	case SliceV:
		rs, ok1 := collect(func(v Val) (Term, bool) { x, ok := v.(SliceV); return x.Ref, ok })
		ls, ok2 := collect(func(v Val) (Term, bool) { x, ok := v.(SliceV); return x.Len, ok })
		cs, ok3 := collect(func(v Val) (Term, bool) { x, ok := v.(SliceV); return x.Cap, ok })
		if ok1 && ok2 && ok3 {
			return SliceV{Ref: mergeT(rs, "Int"), Len: mergeT(ls, "Int"), Cap: mergeT(cs, "Int"), ElemT: v0.ElemT}
		}
	case StructV:
		okAll := true
		for _, v := range vals {
			if s, ok := v.(StructV); !ok || len(s.F) != len(v0.F) {
				okAll = false
			}
		}
		if okAll {
			out := StructV{T: v0.T}
			for i := range v0.F {
				sub := make([]Val, len(vals))
				for j, v := range vals {
					sub[j] = v.(StructV).F[i]
				}
				out.F = append(out.F, fe.mergeVal(sub, pcs, hint))
			}
			return out
		}
	case TupleV:
		okAll := true
		for _, v := range vals {
			if s, ok := v.(TupleV); !ok || len(s.E) != len(v0.E) {
				okAll = false
			}
		}
		if okAll {
			out := TupleV{}
			for i := range v0.E {
				sub := make([]Val, len(vals))
				for j, v := range vals {
					sub[j] = v.(TupleV).E[i]
				}
				out.E = append(out.E, fe.mergeVal(sub, pcs, hint))
			}
			return out
		}
	case ArrayV:
		if ts, ok := collect(func(v Val) (Term, bool) { x, ok := v.(ArrayV); return x.Ref, ok }); ok {
			return ArrayV{Ref: mergeT(ts, "Int"), N: v0.N}
		}
	case PtrV:
		okAll := true
		for _, v := range vals {
			p, ok := v.(PtrV)
			if !ok || p.Cell != nil || p.ElemOf != nil || p.Prefix != v0.Prefix {
				okAll = false
			}
		}
		if okAll && v0.Cell == nil && v0.ElemOf == nil {
			ts := make([]Term, len(vals))
			for i, v := range vals {
				ts[i] = v.(PtrV).Base
			}
			return PtrV{Base: mergeT(ts, "Int"), Prefix: v0.Prefix, Pointee: v0.Pointee}
		}
	}
	// ref-like fall back: merge identity terms
	ts := make([]Term, len(vals))
	for i, v := range vals {
		ts[i] = termOf(v)
	}
	fe.abstracted["merge-of-unlike-values"]++
	if os.Getenv("GCV_DEBUG_MERGE") != "" {
		for _, v := range vals {
			fmt.Fprintf(os.Stderr, "merge-of-unlike-values %s: %T %v\n", hint, v, v)
		}
	}
	return RefV{mergeT(ts, "Int")}
}

// ---------------------------------------------------------------------------
// heap

func (fe *FnExec) heapGet(st *State, name, sort string) Term {
	if t, ok := st.heap[name]; ok {
		return t
	}
	if _, ok := fe.heapSort[name]; !ok {
		fe.heapSort[name] = sort
		fe.script.Decls = append(fe.script.Decls, fmt.Sprintf("(declare-const %s (Array Int %s))", sym(name+"@0"), sort))
	}
	return sym(name + "@0")
}

func (fe *FnExec) heapSet(st *State, name, sort string, t Term) {
	if _, ok := fe.heapSort[name]; !ok {
		fe.heapGet(st, name, sort)
	}
	st.heap[name] = t
}

func (fe *FnExec) heapFresh(st *State, name string) {
	sort := fe.heapSort[name]
	if sort == "" {
		sort = "Int"
		fe.heapGet(st, name, sort)
	}
	fe.nfresh++
	n := sym(fmt.Sprintf("%s@%d", name, fe.nfresh))
	fe.script.Decls = append(fe.script.Decls, fmt.Sprintf("(declare-const %s (Array Int %s))", n, sort))
	st.heap[name] = n
}

func sortOfType(t types.Type) string {
	if isBool(t) {
		return "Bool"
	}
	return "Int"
}

// loadHeap reads a value of type t stored under prefix at object base.
func (fe *FnExec) loadHeap(st *State, prefix string, base Term, t types.Type) Val {
	switch u := t.Underlying().(type) {
	case *types.Struct:
		sv := StructV{T: t}
		for i := 0; i < u.NumFields(); i++ {
			sv.F = append(sv.F, fe.loadHeap(st, prefix+"."+u.Field(i).Name(), base, u.Field(i).Type()))
		}
		return sv
	case *types.Slice:
		r := sx("select", fe.heapGet(st, prefix+".ref", "Int"), base)
		l := sx("select", fe.heapGet(st, prefix+".len", "Int"), base)
		c := sx("select", fe.heapGet(st, prefix+".cap", "Int"), base)
		fe.assume(tAnd(sx("<=", "0", l), sx("<=", l, c), sx("<=", c, maxLen)), "slice shape (heap)")
		return SliceV{Ref: r, Len: l, Cap: c, ElemT: u.Elem()}
	case *types.Basic:
		sel := sx("select", fe.heapGet(st, prefix, sortOfType(t)), base)
		switch {
		case u.Info()&types.IsBoolean != 0:
			return BoolV{sel}
		case u.Info()&types.IsString != 0:
			return StrV{sel}
		case u.Info()&types.IsInteger != 0:
			k, _ := intKindOf(t)
			fe.assume(k.inRange(sel), "range of heap "+prefix)
			return IntV{sel}
		}
		return RefV{sel}
	case *types.Pointer:
		sel := sx("select", fe.heapGet(st, prefix, "Int"), base)
		fe.typedRef(sel, u.Elem())
		return PtrV{Base: sel, Prefix: typeName(u.Elem()), Pointee: u.Elem()}
	case *types.Array:
		sel := sx("select", fe.heapGet(st, prefix, "Int"), base)
		return ArrayV{Ref: sel, N: u.Len()}
	}
	sel := sx("select", fe.heapGet(st, prefix, "Int"), base)
	return RefV{sel}
}

func (fe *FnExec) storeHeap(st *State, prefix string, base Term, t types.Type, v Val) {
	switch u := t.Underlying().(type) {
	case *types.Struct:
		sv, ok := v.(StructV)
		for i := 0; i < u.NumFields(); i++ {
			var fv Val
			if ok && i < len(sv.F) {
				fv = sv.F[i]
			} else {
				fv = fe.freshVal(u.Field(i).Type(), "h")
			}
			fe.storeHeap(st, prefix+"."+u.Field(i).Name(), base, u.Field(i).Type(), fv)
		}
		return
	case *types.Slice:
		sl, ok := v.(SliceV)
		if !ok {
			sl = fe.freshVal(t, "h").(SliceV)
		}
		fe.heapSet(st, prefix+".ref", "Int", sx("store", fe.heapGet(st, prefix+".ref", "Int"), base, sl.Ref))
		fe.heapSet(st, prefix+".len", "Int", sx("store", fe.heapGet(st, prefix+".len", "Int"), base, sl.Len))
		fe.heapSet(st, prefix+".cap", "Int", sx("store", fe.heapGet(st, prefix+".cap", "Int"), base, sl.Cap))
		return
	}
	sort := sortOfType(t)
	var tv Term
	if sort == "Bool" {
		if b, ok := v.(BoolV); ok {
			tv = b.T
		} else {
			tv = fe.fresh("h", "Bool")
		}
	} else {
		tv = termOf(v)
	}
	fe.heapSet(st, prefix, sort, sx("store", fe.heapGet(st, prefix, sort), base, tv))
}

// havocHeapObj forgets everything stored under prefix at base.
func (fe *FnExec) havocHeapObj(st *State, prefix string, base Term, t types.Type) {
	fe.storeHeap(st, prefix, base, t, fe.freshVal(t, "hv"))
}

func (fe *FnExec) asPtr(v Val, pointee types.Type) PtrV {
	switch x := v.(type) {
	case PtrV:
		return x
	case RefV:
		return PtrV{Base: x.T, Prefix: typeName(pointee), Pointee: pointee}
	case IntV:
		return PtrV{Base: x.T, Prefix: typeName(pointee), Pointee: pointee}
	}
	return PtrV{Base: fe.fresh("p", "Int"), Prefix: typeName(pointee), Pointee: pointee}
}

func getPath(v Val, path []int) Val {
	for _, i := range path {
		switch x := v.(type) {
		case StructV:
			v = x.F[i]
		case ArrayV:
			if x.Elem == nil || i >= len(x.Elem) {
				return nil
			}
			v = x.Elem[i]
		case TupleV:
			v = x.E[i]
		default:
			return nil
		}
	}
	return v
}

func setPath(v Val, path []int, nv Val) Val {
	if len(path) == 0 {
		return nv
	}
	switch x := v.(type) {
	case StructV:
		f := append([]Val(nil), x.F...)
		f[path[0]] = setPath(f[path[0]], path[1:], nv)
		return StructV{T: x.T, F: f}
	case ArrayV:
		if x.Elem == nil || path[0] >= len(x.Elem) {
			return ArrayV{Ref: x.Ref, N: x.N}
		}
		e := append([]Val(nil), x.Elem...)
		e[path[0]] = setPath(e[path[0]], path[1:], nv)
		return ArrayV{Ref: x.Ref, N: x.N, Elem: e}
	}
	return v
}

func (fe *FnExec) load(st *State, p PtrV) Val {
	if p.Cell != nil {
		v, ok := st.cells[p.Cell]
		if !ok {
			v = fe.freshVal(p.Cell.Type().(*types.Pointer).Elem(), "cell")
			st.cells[p.Cell] = v
		}
		r := getPath(v, p.Path)
		if r == nil {
			return fe.freshVal(p.Pointee, "ld")
		}
		return r
	}
	if p.ElemOf != nil {
		if es := p.ElemOf.Elems; es != nil && len(es) > 0 && len(es) <= 8 {
			// a short literal ([]error{a, b}) read at a symbolic index: the element is one of the known ones
			if v, ok := iteChain(es, p.Idx); ok {
				return v
			}
		}
		return fe.elemLoad(*p.ElemOf, p.Idx, p.Pointee)
	}
	return fe.loadHeap(st, p.Prefix, p.Base, p.Pointee)
}

// iteChain selects es[idx] for scalar / reference elements of one kind.
func iteChain(es []Val, idx Term) (Val, bool) {
	kind := ""
	var ts []Term
	for _, e := range es {
		switch x := e.(type) {
		case RefV:
			if kind != "" && kind != "ref" {
				return nil, false
			}
			kind = "ref"
			ts = append(ts, x.T)
		case IntV:
			if kind != "" && kind != "int" {
				return nil, false
			}
			kind = "int"
			ts = append(ts, x.T)
		case BoolV:
			if kind != "" && kind != "bool" {
				return nil, false
			}
			kind = "bool"
			ts = append(ts, x.T)
		default:
			return nil, false
		}
	}
	t := ts[len(ts)-1]
	for i := len(ts) - 2; i >= 0; i-- {
		t = tIte(tEq(idx, tInt(int64(i))), ts[i], t)
	}
	switch kind {
	case "ref":
		return RefV{t}, true
	case "int":
		return IntV{t}, true
	}
	return BoolV{t}, true
}

func (fe *FnExec) store(st *State, p PtrV, v Val) {
	if p.Cell != nil {
		old, ok := st.cells[p.Cell]
		if !ok {
			old = fe.zeroVal(p.Cell.Type().(*types.Pointer).Elem())
		}
		st.cells[p.Cell] = setPath(old, p.Path, v)
		return
	}
	if p.ElemOf != nil {
		fe.memVersion++ // slice contents are not tracked: forget what was read from any slice
		return
	}
	fe.storeHeap(st, p.Prefix, p.Base, p.Pointee, v)
}

// elemLoad: the value of a scalar slice element.  Slice contents are not modelled, but two reads of the same
// element with no store to any slice, no call and no loop head in between see the same value.
func (fe *FnExec) elemLoad(sl SliceV, idx Term, t types.Type) Val {
	if _, isInt := intKindOf(t); !isInt && !isBool(t) {
		return fe.freshVal(t, "elem")
	}
	key := fmt.Sprintf("%d|%s|%s", fe.memVersion, sl.Ref, idx)
	if v, ok := fe.elemCache[key]; ok {
		return v
	}
	v := fe.freshVal(t, "elem")
	fe.elemCache[key] = v
	return v
}

// ---------------------------------------------------------------------------
// function execution

func isBackEdge(from, to *ssa.BasicBlock) bool { return to.Dominates(from) }

func (fe *FnExec) findLoops(fr *frame) {
	fn := fr.fn
	heads := map[*ssa.BasicBlock]bool{}
	for _, b := range fn.Blocks {
		for _, s := range b.Succs {
			if isBackEdge(b, s) {
				heads[s] = true
			}
		}
	}
	var hs []*ssa.BasicBlock
	for h := range heads {
		hs = append(hs, h)
	}
	sort.Slice(hs, func(i, j int) bool { return hs[i].Index < hs[j].Index })
	for i, h := range hs {
		li := &loopInfo{head: h, ord: i, havocCells: map[*ssa.Alloc]bool{}, havocPaths: map[*ssa.Alloc]map[string]bool{}, havocHeap: map[string]string{}, body: map[*ssa.BasicBlock]bool{h: true}}
		if fr.con != nil {
			li.spec = fr.con.Loops[i]
		}
		// natural loop body
		var stack []*ssa.BasicBlock
		for _, p := range h.Preds {
			if isBackEdge(p, h) && !li.body[p] {
				li.body[p] = true
				stack = append(stack, p)
			}
		}
		for len(stack) > 0 {
			b := stack[len(stack)-1]
			stack = stack[:len(stack)-1]
			for _, p := range b.Preds {
				if !li.body[p] {
					li.body[p] = true
					stack = append(stack, p)
				}
			}
		}
		fr.loops[h] = li
	}
}

func rpo(fn *ssa.Function) []*ssa.BasicBlock {
	seen := map[*ssa.BasicBlock]bool{}
	var post []*ssa.BasicBlock
	var dfs func(b *ssa.BasicBlock)
	dfs = func(b *ssa.BasicBlock) {
		seen[b] = true
		for _, s := range b.Succs {
			if !seen[s] && !isBackEdge(b, s) {
				dfs(s)
			}
		}
		post = append(post, b)
	}
	if len(fn.Blocks) > 0 {
		dfs(fn.Blocks[0])
	}
	for i, j := 0, len(post)-1; i < j; i, j = i+1, j-1 {
		post[i], post[j] = post[j], post[i]
	}
	return post
}

// assignOrdinals names call sites, allocation sites etc. by ordinal in block order.
func (fe *FnExec) assignOrdinals(fr *frame) {
	counts := map[string]int{}
	next := func(k string) int { n := counts[k]; counts[k] = n + 1; return n }
	for _, b := range fr.fn.Blocks {
		for _, in := range b.Instrs {
			switch x := in.(type) {
			case ssa.CallInstruction:
				nm := calleeShortName(x.Common(), fr.fn)
				if _, isGo := in.(*ssa.Go); isGo {
					fr.ords[in] = fmt.Sprintf("go[%d]", next("go"))
				}
				key := fmt.Sprintf("%s#%d", nm, next("call:"+nm))
				if _, isGo := in.(*ssa.Go); !isGo {
					fr.ords[in] = key
				}
				fr.callIdx[key] = x
			case *ssa.MapUpdate:
				fr.ords[in] = fmt.Sprintf("mapupdate#%d", next("mapupdate"))
				fr.pseudoSites[fr.ords[in]] = true
			case *ssa.Lookup:
				if _, isMap := x.X.Type().Underlying().(*types.Map); isMap {
					fr.ords[in] = fmt.Sprintf("maplookup#%d", next("maplookup"))
					fr.pseudoSites[fr.ords[in]] = true
					fr.pseudoVals[fr.ords[in]] = x
				}
			case *ssa.Send:
				fr.ords[in] = fmt.Sprintf("send#%d", next("send"))
				fr.pseudoSites[fr.ords[in]] = true
			case *ssa.Select:
				// the send cases of a select are numbered with the plain sends, in block order
				first := -1
				for _, stt := range x.States {
					if stt.Dir == types.SendOnly {
						k := next("send")
						if first < 0 {
							first = k
						}
						fr.pseudoSites[fmt.Sprintf("send#%d", k)] = true
					}
				}
				if first >= 0 {
					fr.ords[in] = fmt.Sprintf("send#%d", first)
				}
			case *ssa.MakeSlice:
				fr.ords[in] = fmt.Sprintf("alloc[%d]", next("alloc"))
			case *ssa.Panic:
				fr.ords[in] = fmt.Sprintf("panic[%d]", next("panic"))
			case *ssa.IndexAddr, *ssa.Index:
				fr.ords[in] = fmt.Sprintf("bounds[%d]", next("bounds"))
			case *ssa.Slice:
				fr.ords[in] = fmt.Sprintf("bounds[%d]", next("bounds"))
			case *ssa.BinOp:
				if x.Op == token.QUO || x.Op == token.REM {
					fr.ords[in] = fmt.Sprintf("div[%d]", next("div"))
				}
			case *ssa.TypeAssert:
				if !x.CommaOk {
					fr.ords[in] = fmt.Sprintf("assert[%d]", next("assert"))
				}
			case *ssa.Convert:
				_ = x
			}
		}
	}
}

func calleeShortName(cc *ssa.CallCommon, in *ssa.Function) string {
	if cc.IsInvoke() {
		recv := cc.Value.Type()
		name := "iface"
		if n, ok := recv.(*types.Named); ok {
			name = n.Obj().Name()
		}
		// name the interface that declares the method
		if sig, ok := cc.Method.Type().(*types.Signature); ok && sig.Recv() != nil {
			if n, ok := sig.Recv().Type().(*types.Named); ok {
				name = n.Obj().Name()
			}
		}
		return name + "." + cc.Method.Name()
	}
	if b, ok := cc.Value.(*ssa.Builtin); ok {
		return b.Name()
	}
	if f := cc.StaticCallee(); f != nil {
		if f.Object() == nil {
			return f.Name() // anonymous: Parent$k
		}
		obj := f.Object().(*types.Func)
		sig := obj.Type().(*types.Signature)
		if sig.Recv() != nil {
			rt := sig.Recv().Type()
			if p, ok := rt.(*types.Pointer); ok {
				rt = p.Elem()
			}
			if n, ok := rt.(*types.Named); ok {
				return n.Obj().Name() + "." + obj.Name()
			}
			return obj.Name()
		}
		if obj.Pkg() != nil && in.Pkg != nil && obj.Pkg() != in.Pkg.Pkg {
			return obj.Pkg().Name() + "." + obj.Name()
		}
		return obj.Name()
	}
	return "dynamic"
}

func (fe *FnExec) newFrame(fn *ssa.Function, con *Contract, name string) *frame {
	fr := &frame{fn: fn, con: con, name: name, out: map[*ssa.BasicBlock]*State{}, loops: map[*ssa.BasicBlock]*loopInfo{}, binds: map[string]Val{}, ords: map[ssa.Instruction]string{}, callIdx: map[string]ssa.CallInstruction{}, pseudoSites: map[string]bool{}, pseudoVals: map[string]ssa.Value{}}
	fe.findLoops(fr)
	fe.assignOrdinals(fr)
	return fr
}

func (fe *FnExec) edgeCond(from *ssa.BasicBlock, succIdx int) Term {
	if len(from.Instrs) == 0 {
		return "true"
	}
	if iff, ok := from.Instrs[len(from.Instrs)-1].(*ssa.If); ok {
		c := fe.val(iff.Cond)
		bt := "true"
		if b, ok := c.(BoolV); ok {
			bt = b.T
		}
		if succIdx == 0 {
			return bt
		}
		return tNot(bt)
	}
	return "true"
}

func (fe *FnExec) mergeStates(fr *frame, b *ssa.BasicBlock, ins []*State) *State {
	if len(ins) == 1 {
		return ins[0].clone()
	}
	pcs := make([]Term, len(ins))
	for i, s := range ins {
		pcs[i] = s.pc
	}
	pc := fe.fresh(fmt.Sprintf("pc.b%d", b.Index), "Bool")
	fe.assume(tEq(pc, tOr(pcs...)), "path condition of join")
	out := &State{pc: pc, cells: map[*ssa.Alloc]Val{}, heap: map[string]Term{}}
	// cells
	seen := map[*ssa.Alloc]bool{}
	var keys []*ssa.Alloc
	for _, s := range ins {
		for k := range s.cells {
			if !seen[k] {
				seen[k] = true
				keys = append(keys, k)
			}
		}
	}
	sort.Slice(keys, func(i, j int) bool {
		return keys[i].Pos() < keys[j].Pos() || (keys[i].Pos() == keys[j].Pos() && keys[i].Name() < keys[j].Name())
	})
	for _, k := range keys {
		var vs []Val
		var ps []Term
		for i, s := range ins {
			if v, ok := s.cells[k]; ok {
				vs = append(vs, v)
				ps = append(ps, pcs[i])
			}
		}
		out.cells[k] = fe.mergeVal(vs, ps, k.Comment)
	}
	// heap
	hn := map[string]bool{}
	for _, s := range ins {
		for k := range s.heap {
			hn[k] = true
		}
	}
	for _, name := range sortedKeys(hn) {
		ts := make([]Term, len(ins))
		same := true
		for i, s := range ins {
			ts[i] = fe.heapGet(s, name, fe.heapSort[name])
			if ts[i] != ts[0] {
				same = false
			}
		}
		if same {
			out.heap[name] = ts[0]
			continue
		}
		fe.nfresh++
		m := sym(fmt.Sprintf("%s@%d", name, fe.nfresh))
		fe.script.Decls = append(fe.script.Decls, fmt.Sprintf("(declare-const %s (Array Int %s))", m, fe.heapSort[name]))
		for i, t := range ts {
			fe.assume(tImp(pcs[i], tEq(m, t)), "merge heap")
		}
		out.heap[name] = m
	}
	// defers
	dseen := map[*ssa.Defer]bool{}
	var dorder []*ssa.Defer
	for _, s := range ins {
		for _, d := range s.defers {
			if !dseen[d.instr] {
				dseen[d.instr] = true
				dorder = append(dorder, d.instr)
			}
		}
	}
	for _, di := range dorder {
		var guards []Term
		var rec *deferRec
		for i, s := range ins {
			for j := range s.defers {
				if s.defers[j].instr == di {
					guards = append(guards, tAnd(pcs[i], s.defers[j].guard))
					if rec == nil {
						r := s.defers[j]
						rec = &r
					}
				}
			}
		}
		rec.guard = tOr(guards...)
		out.defers = append(out.defers, *rec)
	}
	return out
}

// runFunction executes fr.fn from the given entry state with the given
// parameter values; returns are collected in fr.rets / fr.retVals.
func (fe *FnExec) runFunction(fr *frame, entry *State, params []Val, free []Val) {
	fn := fr.fn
	for i, p := range fn.Params {
		if i < len(params) {
			fe.regs[p] = params[i]
		} else {
			fe.regs[p] = fe.freshVal(p.Type(), p.Name())
		}
	}
	for i, fv := range fn.FreeVars {
		if i < len(free) {
			fe.regs[fv] = free[i]
		} else {
			pt := fv.Type().(*types.Pointer).Elem()
			fe.regs[fv] = PtrV{Base: fe.declareOnce("cap."+fv.Name(), "Int"), Prefix: "cap." + fv.Name(), Pointee: pt}
		}
	}
	order := rpo(fn)
	for _, b := range order {
		var st *State
		li := fr.loops[b]
		if b == fn.Blocks[0] {
			st = entry.clone()
		} else {
			var ins []*State
			for _, p := range b.Preds {
				if isBackEdge(p, b) {
					continue
				}
				ps := fr.out[p]
				if ps == nil {
					continue
				}
				for si, s := range p.Succs {
					if s != b {
						continue
					}
					c := fe.edgeCond(p, si)
					if c == "false" {
						continue
					}
					e := ps.clone()
					if c != "true" {
						e.pc = tAnd(ps.pc, c)
					}
					// Phi handling needs to know the edge: record
					ins = append(ins, e)
					fe.notePhiEdge(b, p, e)
				}
			}
			if len(ins) == 0 {
				continue // unreachable
			}
			st = fe.mergeStates(fr, b, ins)
			fe.resolvePhis(b, st)
		}
		if li != nil {
			fe.enterLoop(fr, li, st)
		}
		fe.blocksReached++
		fe.execBlock(fr, b, st)
		fr.out[b] = st
		// back edges out of this block
		for si, s := range b.Succs {
			if isBackEdge(b, s) {
				if l2 := fr.loops[s]; l2 != nil {
					c := fe.edgeCond(b, si)
					e := st.clone()
					if c != "true" {
						e.pc = tAnd(st.pc, c)
					}
					fe.backEdge(fr, l2, e)
				}
			}
		}
	}
}

func (fe *FnExec) declareOnce(name, sort string) Term {
	n := sym(name)
	d := fmt.Sprintf("(declare-const %s %s)", n, sort)
	for _, x := range fe.script.Decls {
		if x == d {
			return n
		}
	}
	fe.script.Decls = append(fe.script.Decls, d)
	return n
}

// Phi nodes (only produced for && / || values in naive form).
type phiEdge struct {
	pred *ssa.BasicBlock
	st   *State
}

func (fe *FnExec) notePhiEdge(b, p *ssa.BasicBlock, e *State) {
	if len(b.Instrs) > 0 {
		if _, ok := b.Instrs[0].(*ssa.Phi); ok {
			fe.phiEdges[b] = append(fe.phiEdges[b], phiEdge{p, e})
		}
	}
}

func (fe *FnExec) resolvePhis(b *ssa.BasicBlock, st *State) {
	edges := fe.phiEdges[b]
	delete(fe.phiEdges, b)
	for _, in := range b.Instrs {
		phi, ok := in.(*ssa.Phi)
		if !ok {
			break
		}
		var vs []Val
		var ps []Term
		for _, e := range edges {
			for pi, p := range b.Preds {
				if p == e.pred {
					vs = append(vs, fe.val(phi.Edges[pi]))
					ps = append(ps, e.st.pc)
					break
				}
			}
		}
		if len(vs) == 0 {
			fe.regs[phi] = fe.freshVal(phi.Type(), "phi")
		} else {
			fe.regs[phi] = fe.mergeVal(vs, ps, "phi")
		}
	}
}

func (fe *FnExec) loopName(li *loopInfo) string { return fmt.Sprintf("loop[%d]", li.ord) }

func (fe *FnExec) enterLoop(fr *frame, li *loopInfo, st *State) {
	// establish invariants
	if li.spec != nil {
		for _, inv := range li.spec.Invs {
			ctx := fe.ctxFor(fr, st)
			g := ctx.evalBool(inv.X)
			fe.oblige(fr, fe.loopName(li)+".inv:"+inv.Label+":init", inv.Props, st.pc, g, li.head.Instrs[0].Pos(), inv.Src)
		}
	}
	// havoc
	var cs []*ssa.Alloc
	for c := range li.havocCells {
		cs = append(cs, c)
	}
	sort.Slice(cs, func(i, j int) bool {
		return cs[i].Pos() < cs[j].Pos() || (cs[i].Pos() == cs[j].Pos() && cs[i].Name() < cs[j].Name())
	})
	for _, c := range cs {
		if cur, ok := st.cells[c]; ok {
			if sv, isS := cur.(StructV); isS && len(li.havocPaths[c]) > 0 && !li.havocPaths[c][""] {
				st.cells[c] = fe.havocStructPaths(sv, "", li.havocPaths[c], "lp."+c.Comment)
				continue
			}
			st.cells[c] = fe.freshVal(c.Type().(*types.Pointer).Elem(), "lp."+c.Comment)
			if c.Comment == "rangeindex" {
				// structural invariant of go/ssa's range lowering: the index starts at -1 and only increments
				bound := Term(maxLen)
				if len(li.head.Instrs) > 0 {
					if iff, ok := li.head.Instrs[len(li.head.Instrs)-1].(*ssa.If); ok {
						if bo, ok := iff.Cond.(*ssa.BinOp); ok && bo.Op == token.LSS {
							if lv, ok := fe.regs[bo.Y]; ok {
								bound = fe.intTerm(lv)
							}
						}
					}
				}
				fe.assume(tAnd(sx("<=", "(- 1)", fe.intTerm(st.cells[c])), sx("<", fe.intTerm(st.cells[c]), bound), sx("<", fe.intTerm(st.cells[c]), maxLen)), "range index in [-1, len)")
			}
		}
	}
	for _, h := range sortedKeys(li.havocHeap) {
		fe.heapGet(st, h, li.havocHeap[h])
		fe.heapFresh(st, h)
	}
	if len(st.defers) > 0 {
		// defers registered inside loops are outside the subset
	}
	// The path condition of the entry edges stays: it is a fact about values that existed when the loop was
	// entered, and every later iteration has passed through that entry as well.
	if li.spec != nil {
		for _, inv := range li.spec.Invs {
			ctx := fe.ctxFor(fr, st)
			g := ctx.evalBool(inv.X)
			fe.assume(tImp(st.pc, g), "loop invariant "+inv.Label)
		}
	}
	li.headState = st.clone()
	fe.memVersion++
	if li.spec != nil && li.spec.Decreases != nil {
		ctx := fe.ctxFor(fr, st)
		li.dec0 = termOf(ctx.eval(li.spec.Decreases.E))
	}
}

func (fe *FnExec) backEdge(fr *frame, li *loopInfo, st *State) {
	if fe.quiet {
		// discovery: which cells / heap maps differ from the head state?
		for c, v := range st.cells {
			hv, ok := li.headState.cells[c]
			if !ok {
				continue
			}
			if valKey(hv) != valKey(v) {
				if !li.havocCells[c] {
					li.havocCells[c] = true
					fe.changed = true
				}
				if li.havocPaths[c] == nil {
					li.havocPaths[c] = map[string]bool{}
				}
				for _, pth := range diffPaths(hv, v, "") {
					if !li.havocPaths[c][pth] {
						li.havocPaths[c][pth] = true
						fe.changed = true
					}
				}
			}
		}
		for h, t := range st.heap {
			if _, have := li.havocHeap[h]; fe.heapGet(li.headState, h, fe.heapSort[h]) != t && !have {
				li.havocHeap[h] = fe.heapSort[h]
				fe.changed = true
			}
		}
		return
	}
	fe.errPropAtBackEdge(fr, li, st)
	if li.spec != nil {
		for _, inv := range li.spec.Invs {
			ctx := fe.ctxFor(fr, st)
			g := ctx.evalBool(inv.X)
			fe.oblige(fr, fe.loopName(li)+".inv:"+inv.Label+":keep", inv.Props, st.pc, g, li.head.Instrs[0].Pos(), inv.Src)
		}
		for _, sp := range li.spec.Steps {
			ctx := fe.ctxFor(fr, st)
			fe.oblige(fr, fe.loopName(li)+".step:"+sp.Label, sp.Props, st.pc, ctx.evalBool(sp.X), li.head.Instrs[0].Pos(), sp.Src)
		}
		if li.spec.Decreases != nil {
			ctx := fe.ctxFor(fr, st)
			d1 := termOf(ctx.eval(li.spec.Decreases.E))
			fe.oblige(fr, fe.loopName(li)+".dec", []string{"C09"}, st.pc, tAnd(sx("<=", "0", li.dec0), sx("<", d1, li.dec0)), li.head.Instrs[0].Pos(), li.spec.Decreases.Src)
		}
	}
}

// val gives the symbolic value of an SSA value.
func (fe *FnExec) val(v ssa.Value) Val {
	if r, ok := fe.regs[v]; ok {
		return r
	}
	switch x := v.(type) {
	case *ssa.Const:
		return fe.constVal(x)
	case *ssa.Global:
		pt := x.Type().(*types.Pointer).Elem()
		return PtrV{Base: "0", Prefix: "global:" + x.RelString(nil), Pointee: pt}
	case *ssa.Function:
		return FuncV{Fn: x}
	case *ssa.Builtin:
		return RefV{"0"}
	}
	r := fe.freshVal(v.Type(), "undef."+v.Name())
	fe.regs[v] = r
	return r
}

func (fe *FnExec) constVal(c *ssa.Const) Val {
	t := c.Type()
	if c.Value == nil {
		return fe.zeroVal(t)
	}
	switch c.Value.Kind() {
	case constant.Bool:
		if constant.BoolVal(c.Value) {
			return BoolV{"true"}
		}
		return BoolV{"false"}
	case constant.Int:
		if bi, ok := constant.Val(c.Value).(interface{ String() string }); ok {
			s := bi.String()
			if strings.HasPrefix(s, "-") {
				return IntV{"(- " + s[1:] + ")"}
			}
			return IntV{s}
		}
		i, _ := constant.Int64Val(c.Value)
		return IntV{tInt(i)}
	case constant.String:
		s := constant.StringVal(c.Value)
		id := fe.declareOnce(fmt.Sprintf("str.%x", hashString(s)), "Int")
		fe.assume(tEq(sx("strlen", id), tInt(int64(len(s)))), "string literal length")
		return StrV{id}
	}
	return fe.freshVal(t, "const")
}

func hashString(s string) uint64 {
	var h uint64 = 1469598103934665603
	for i := 0; i < len(s); i++ {
		h ^= uint64(s[i])
		h *= 1099511628211
	}
	return h
}

func (fe *FnExec) globalVal(st *State, g *ssa.Global) Val {
	if v, ok := fe.globals[g]; ok {
		return v
	}
	pt := g.Type().(*types.Pointer).Elem()
	var v Val
	if types.Identical(pt, types.Universe.Lookup("error").Type()) {
		n, ok := fe.sentinel[g]
		if !ok {
			n = len(fe.sentinel) + 1
			fe.sentinel[g] = n
		}
		v = RefV{tInt(int64(n))}
	} else {
		v = fe.freshVal(pt, "g."+g.Name())
		if sl, ok := v.(SliceV); ok {
			if n, ok := fe.eng.globalLitLen(g); ok {
				fe.assume(tEq(sl.Len, tInt(int64(n))), "length of the composite literal initialising "+g.Name())
			}
		}
	}
	fe.globals[g] = v
	return v
}
