package main

import (
	"fmt"
	"go/types"
	"math/big"
	"strings"

	"golang.org/x/tools/go/ssa"
)

// Symbolic values.

type Val interface{}

type (
	IntV  struct{ T Term }
	BoolV struct{ T Term }
	// RefV: interface values, maps, channels, unknown funcs, unsafe pointers: an opaque Int id (0 = nil).
	RefV struct{ T Term }
	// StrV: a string id; its length is strlen(id).
	StrV   struct{ T Term }
	SliceV struct {
		Ref, Len, Cap Term
		Elems         []Val      // known literal elements (varargs arrays), else nil
		ElemT         types.Type // element type when known (set by loads / fresh values)
	}
	StructV struct {
		T types.Type
		F []Val
	}
	TupleV struct{ E []Val }
	ArrayV struct {
		Ref  Term
		N    int64
		Elem []Val // nil when not tracked
	}
	FuncV struct {
		Fn   *ssa.Function
		Bind []Val
	}
	// PtrV: a pointer.  Cell != nil: pointer into a local cell (Path selects a
	// component).  Otherwise a heap pointer: Base is the object id, Prefix names
	// the field-map family ("v2.BlockReader", "v2.BlockReader.opts", "*int" ...).
	PtrV struct {
		Cell     *ssa.Alloc
		Path     []int
		Base     Term
		Prefix   string
		Pointee  types.Type
		Interior bool // points inside the object Base (a field), not at the object itself
		// element pointer into a slice/array (contents are not tracked unless Elems known)
		ElemOf *SliceV
		Idx    Term
	}
)

func isNilTerm(t Term) bool { return t == "0" }

// termOf gives the canonical identity term of a value (for uninterpreted functions, keys, equality).
func termOf(v Val) Term {
	switch x := v.(type) {
	case IntV:
		return x.T
	case BoolV:
		return tIte(x.T, "1", "0")
	case RefV:
		return x.T
	case StrV:
		return x.T
	case SliceV:
		return x.Ref
	case PtrV:
		if x.Cell != nil {
			return "0"
		}
		return x.Base
	case StructV:
		if len(x.F) >= 1 {
			return termOf(x.F[0])
		}
		return "0"
	case ArrayV:
		return x.Ref
	case TupleV:
		if len(x.E) > 0 {
			return termOf(x.E[0])
		}
	}
	return "0"
}

func shortPkg(p *types.Package) string {
	if p == nil {
		return ""
	}
	path := p.Path()
	switch {
	case path == "github.com/ipld/go-car":
		return "car1"
	case path == "github.com/ipld/go-car/v2":
		return "car2"
	case strings.HasPrefix(path, "github.com/ipld/go-car/v2/"):
		return "v2/" + strings.TrimPrefix(path, "github.com/ipld/go-car/v2/")
	case strings.HasPrefix(path, "github.com/ipld/go-car/"):
		return "v1/" + strings.TrimPrefix(path, "github.com/ipld/go-car/")
	}
	return path
}

func typeName(t types.Type) string {
	return types.TypeString(t, shortPkg)
}

type intKind struct {
	bits   uint
	signed bool
}

func intKindOf(t types.Type) (intKind, bool) {
	b, ok := t.Underlying().(*types.Basic)
	if !ok {
		return intKind{}, false
	}
	switch b.Kind() {
	case types.Int, types.Int64:
		return intKind{64, true}, true
	case types.Int32:
		return intKind{32, true}, true
	case types.Int16:
		return intKind{16, true}, true
	case types.Int8:
		return intKind{8, true}, true
	case types.Uint, types.Uint64, types.Uintptr:
		return intKind{64, false}, true
	case types.Uint32:
		return intKind{32, false}, true
	case types.Uint16:
		return intKind{16, false}, true
	case types.Uint8:
		return intKind{8, false}, true
	case types.UntypedInt, types.UntypedRune:
		return intKind{64, true}, true
	}
	return intKind{}, false
}

func (k intKind) min() *big.Int {
	if !k.signed {
		return big.NewInt(0)
	}
	return new(big.Int).Neg(pow2(k.bits - 1))
}

func (k intKind) max() *big.Int {
	if !k.signed {
		return new(big.Int).Sub(pow2(k.bits), big.NewInt(1))
	}
	return new(big.Int).Sub(pow2(k.bits-1), big.NewInt(1))
}

func (k intKind) name() string {
	if k.signed {
		return fmt.Sprintf("s%d", k.bits)
	}
	return fmt.Sprintf("u%d", k.bits)
}

func (k intKind) inRange(t Term) Term {
	return tAnd(sx("<=", tBig(k.min()), t), sx("<=", t, tBig(k.max())))
}

// wrap1: result of one + or - of two in-range operands.
func (k intKind) wrap1(t Term) Term {
	if k.bits >= 32 {
		return sx("wrap1_"+k.name(), t)
	}
	return sx("wrapm_"+k.name(), t)
}

func (k intKind) wrapm(t Term) Term { return sx("wrapm_"+k.name(), t) }

func isBool(t types.Type) bool {
	b, ok := t.Underlying().(*types.Basic)
	return ok && b.Info()&types.IsBoolean != 0
}

func isString(t types.Type) bool {
	b, ok := t.Underlying().(*types.Basic)
	return ok && b.Info()&types.IsString != 0
}

func isFloat(t types.Type) bool {
	b, ok := t.Underlying().(*types.Basic)
	return ok && (b.Info()&types.IsFloat != 0 || b.Info()&types.IsComplex != 0)
}

const maxLen = "281474976710656" // 2^48: address-space bound on slice/string lengths (assumption)

// ---------------------------------------------------------------------------

// leaf describes one scalar component of a struct stored in field maps.
type leaf struct {
	suffix string // ".f.g" or "" ; slices add ".ref/.len/.cap"
	typ    types.Type
}

func structLeaves(t types.Type, pfx string, out *[]leaf, depth int) {
	if depth > 6 {
		*out = append(*out, leaf{pfx, t})
		return
	}
	if st, ok := t.Underlying().(*types.Struct); ok {
		for i := 0; i < st.NumFields(); i++ {
			f := st.Field(i)
			structLeaves(f.Type(), pfx+"."+f.Name(), out, depth+1)
		}
		return
	}
	*out = append(*out, leaf{pfx, t})
}

func fieldIndex(st *types.Struct, name string) int {
	for i := 0; i < st.NumFields(); i++ {
		if st.Field(i).Name() == name {
			return i
		}
	}
	return -1
}
