package main

// Evaluation of contract expressions to SMT terms.
//
// Arithmetic in contracts is mathematical (no wrap-around); conversions such
// as uint64(x) are the identity; wrap_u64(x) etc. are available explicitly.

import (
	"fmt"
	"go/ast"
	"go/constant"
	"go/token"
	"go/types"
	"strconv"
	"strings"

	"golang.org/x/tools/go/ssa"
)

type EvalCtx struct {
	fe            *FnExec
	st            *State
	old           *State
	binds         map[string]Val
	fr            *frame         // for locals by source name (nil when evaluating a callee contract at a call site)
	pkg           *types.Package // scope for package-level names
	conFile       string
	bound         map[string]Term // quantifier variables
	wantAddr      bool
	hwPre, hwPost Term // allocation watermarks around the call whose contract is being evaluated
	fr0           *frame
	lazyFn        *ssa.Function  // closure whose locals / parameters are unknowns (last-call rule)
	oldBinds      map[string]Val // bindings used inside old(...) in that mode
	atcall        *EvalCtx       // where atcall(e) is evaluated (hand-over site); nil inside the literal's own unit
}

func (fe *FnExec) ctxFor(fr *frame, st *State) *EvalCtx {
	c := &EvalCtx{fe: fe, st: st, old: fr.entry, binds: map[string]Val{}, fr: fr, pkg: fe.pkg}
	if fr.fn.Pkg != nil {
		c.pkg = fr.fn.Pkg.Pkg
	} else if fr.fn.Parent() != nil && fr.fn.Parent().Pkg != nil {
		c.pkg = fr.fn.Parent().Pkg.Pkg
	}
	for k, v := range fr.binds {
		c.binds[k] = v
	}
	if fr.con != nil {
		c.conFile = fr.con.File
		if !fr.inlined {
			fe.bindLets(fr, c)
		}
	}
	return c
}

func (c *EvalCtx) bindResults(sig *types.Signature, rvs []Val) {
	if sig == nil {
		return
	}
	n := sig.Results().Len()
	for i := 0; i < n && i < len(rvs); i++ {
		r := sig.Results().At(i)
		c.binds[fmt.Sprintf("result%d", i)] = rvs[i]
		if i == 0 {
			c.binds["result"] = rvs[0]
		}
		if r.Name() != "" && r.Name() != "_" {
			c.binds[r.Name()] = rvs[i]
		}
		if i == n-1 && types.Identical(r.Type(), types.Universe.Lookup("error").Type()) {
			c.binds["err"] = rvs[i]
		}
	}
}

func (c *EvalCtx) fail(format string, a ...interface{}) Val {
	msg := fmt.Sprintf("contract %s: "+format, append([]interface{}{c.conFile}, a...)...)
	c.fe.clauseErr = msg
	c.fe.warns = append(c.fe.warns, msg)
	return IntV{c.fe.fresh("bad", "Int")}
}

func (c *EvalCtx) evalBool(x *CExpr) Term {
	if c.fe.evalDepth == 0 {
		c.fe.clauseErr = ""
	}
	c.fe.evalDepth++
	defer func() { c.fe.evalDepth-- }()
	if x.Op == "==>" {
		return tImp(c.evalBool(x.L), c.evalBool(x.R))
	}
	if x.Op == "<==>" {
		return tEq(c.evalBool(x.L), c.evalBool(x.R))
	}
	return c.boolOf(c.eval(x.E))
}

func (c *EvalCtx) boolOf(v Val) Term {
	switch b := v.(type) {
	case BoolV:
		return b.T
	}
	c.fail("expected a boolean, got %T", v)
	return "true"
}

func (c *EvalCtx) withState(s *State) *EvalCtx {
	n := *c
	n.st = s
	return &n
}

func (c *EvalCtx) eval(e ast.Expr) Val {
	fe := c.fe
	switch x := e.(type) {
	case *ast.ParenExpr:
		return c.eval(x.X)
	case *ast.BasicLit:
		switch x.Kind {
		case token.INT:
			v := constant.MakeFromLiteral(x.Value, token.INT, 0)
			return IntV{v.ExactString()}
		case token.STRING:
			s, _ := strconv.Unquote(x.Value)
			return StrV{fe.declareOnce(fmt.Sprintf("str.%x", hashString(s)), "Int")}
		}
		return c.fail("unsupported literal %s", x.Value)
	case *ast.Ident:
		return c.evalIdent(x.Name)
	case *ast.UnaryExpr:
		switch x.Op {
		case token.NOT:
			return BoolV{tNot(c.boolOf(c.eval(x.X)))}
		case token.SUB:
			return IntV{sx("-", "0", fe.intTerm(c.eval(x.X)))}
		case token.AND:
			// &x: the address of a local / captured variable (identity only)
			n := *c
			n.wantAddr = true
			return n.eval(x.X)
		}
	case *ast.StarExpr:
		v := c.eval(x.X)
		if p, ok := v.(PtrV); ok {
			return fe.load(c.st, p)
		}
		return v
	case *ast.BinaryExpr:
		return c.evalBinary(x)
	case *ast.SelectorExpr:
		return c.evalSelector(x)
	case *ast.CallExpr:
		return c.evalCall(x)
	case *ast.IndexExpr:
		base := c.eval(x.X)
		if sl, ok := base.(SliceV); ok && sl.Elems != nil {
			if bl, ok := x.Index.(*ast.BasicLit); ok {
				n, _ := strconv.Atoi(bl.Value)
				if n < len(sl.Elems) {
					return sl.Elems[n]
				}
			}
		}
		i := fe.intTerm(c.eval(x.Index))
		if sl, ok := base.(SliceV); ok && sl.ElemT != nil {
			if _, isStruct := sl.ElemT.Underlying().(*types.Struct); isStruct {
				fe.eng.noteUFun("elemaddr", 2)
				return fe.loadHeap(c.st, typeName(sl.ElemT), sx("elemaddr", sl.Ref, i), sl.ElemT)
			}
		}
		if sl, ok := base.(SliceV); ok && sl.ElemT != nil {
			if _, isInt := intKindOf(sl.ElemT); isInt || isBool(sl.ElemT) {
				return fe.elemLoad(sl, i, sl.ElemT)
			}
		}
		fe.eng.noteUFun("elemlen", 2)
		// abstract element: only its length is known
		return SliceV{Ref: sx(sym("elemref"), termOf(base), i), Len: sx(sym("elemlen"), termOf(base), i), Cap: sx(sym("elemlen"), termOf(base), i)}
	}
	return c.fail("unsupported expression %T", e)
}

func (c *EvalCtx) evalIdent(name string) Val {
	_ = c.fe
	if t, ok := c.bound[name]; ok {
		return IntV{t}
	}
	if v, ok := c.binds[name]; ok {
		if c.fr != nil && c.lazyFn == nil {
			for i, p := range c.fr.fn.Params {
				if p.Name() == name {
					c.fe.eng.noteParamUse(c.fr.name, name, i, 0)
				}
			}
			if rs := c.fr.fn.Signature.Results(); rs != nil {
				for i := 0; i < rs.Len(); i++ {
					if rs.At(i).Name() == name && name != "" {
						c.fe.eng.noteParamUse(c.fr.name, name, -1, i+1)
					}
				}
			}
		}
		return v
	}
	switch name {
	case "nil":
		return RefV{"0"}
	case "true":
		return BoolV{"true"}
	case "false":
		return BoolV{"false"}
	}
	// locals of the function under verification, by source name ("name#2" = second declaration)
	if c.fr != nil {
		if v, ok := c.localByName(name); ok {
			return v
		}
	}
	// locals / parameters of a closure evaluated from outside: unknowns
	if c.lazyFn != nil {
		for _, p := range c.lazyFn.Params {
			if p.Name() == name {
				v := c.fe.freshVal(p.Type(), "cb."+name)
				c.binds[name] = v
				return v
			}
		}
		for _, b := range c.lazyFn.Blocks {
			for _, in := range b.Instrs {
				if a, ok := in.(*ssa.Alloc); ok && a.Comment == name {
					v := c.fe.freshVal(a.Type().(*types.Pointer).Elem(), "cb."+name)
					c.binds[name] = v
					return v
				}
			}
		}
	}
	// package scope
	if c.pkg != nil {
		if obj := c.pkg.Scope().Lookup(name); obj != nil {
			return c.objVal(obj)
		}
	}
	// a local or parameter that was renamed since the expectation lists were written: same type, same position
	if c.fr != nil {
		if v, now, ok := c.byHint(name); ok {
			c.fe.warns = append(c.fe.warns, fmt.Sprintf("%s: the contract names %q, which the code now calls %q (resolved by type and position; update the contract)", c.fr.name, name, now))
			return v
		}
	}
	return c.fail("unknown name %q", name)
}

func (c *EvalCtx) localByName(name string) (Val, bool) {
	want := 1
	base := name
	if i := strings.Index(name, "__"); i > 0 {
		if n, err := strconv.Atoi(name[i+2:]); err == nil {
			base = name[:i]
			want = n
		}
	}
	fn := c.fr.fn
	n := 0
	var found *ssa.Alloc
	for _, b := range fn.Blocks {
		for _, in := range b.Instrs {
			if a, ok := in.(*ssa.Alloc); ok && a.Comment == base {
				n++
				if n == want {
					found = a
				}
			}
		}
	}
	if found != nil {
		c.fe.eng.noteLocalUse(c.fr.name, name, fn, found)
		return c.localValue(found)
	}
	return c.localTail(fn, base)
}

// localValue: the current value of the local variable declared by alloc a.
func (c *EvalCtx) localValue(found *ssa.Alloc) (Val, bool) {
	{
		pv, ok := c.fe.regs[found]
		if !ok {
			// not yet executed on any path: zero
			return c.fe.zeroVal(found.Type().(*types.Pointer).Elem()), true
		}
		p := pv.(PtrV)
		if p.Cell != nil {
			if v, ok := c.st.cells[p.Cell]; ok {
				return v, true
			}
			return c.fe.zeroVal(p.Pointee), true
		}
		if c.wantAddr {
			return p, true
		}
		return c.fe.load(c.st, p), true // struct local in the heap model: its value
	}
}

func (c *EvalCtx) localTail(fn *ssa.Function, base string) (Val, bool) {
	// captured variables of a closure
	for _, fv := range fn.FreeVars {
		if fv.Name() == base {
			p := c.fe.regs[fv]
			if pp, ok := p.(PtrV); ok {
				if c.wantAddr {
					return pp, true
				}
				return c.fe.load(c.st, pp), true
			}
		}
	}
	// parameters (current value = entry value unless reassigned; naive form stores them in cells, found above)
	return nil, false
}

// identType: the static type of a local, captured variable or parameter of the function under verification.
func (c *EvalCtx) identType(name string) types.Type {
	if c.fr == nil {
		return nil
	}
	base := name
	if i := strings.Index(name, "__"); i > 0 {
		base = name[:i]
	}
	fn := c.fr.fn
	for _, b := range fn.Blocks {
		for _, in := range b.Instrs {
			if a, ok := in.(*ssa.Alloc); ok && a.Comment == base {
				return a.Type().(*types.Pointer).Elem()
			}
		}
	}
	for _, fv := range fn.FreeVars {
		if fv.Name() == base {
			if pt, ok := fv.Type().(*types.Pointer); ok {
				return pt.Elem()
			}
		}
	}
	for _, p := range fn.Params {
		if p.Name() == base {
			return p.Type()
		}
	}
	return nil
}

func (c *EvalCtx) objVal(obj types.Object) Val {
	fe := c.fe
	switch o := obj.(type) {
	case *types.Const:
		switch o.Val().Kind() {
		case constant.Int:
			s := o.Val().ExactString()
			if strings.HasPrefix(s, "-") {
				return IntV{"(- " + s[1:] + ")"}
			}
			return IntV{s}
		case constant.Bool:
			if constant.BoolVal(o.Val()) {
				return BoolV{"true"}
			}
			return BoolV{"false"}
		}
	case *types.Var:
		// package-level variable: find the ssa.Global
		if pkg := fe.eng.prog.Package(o.Pkg()); pkg != nil {
			if g, ok := pkg.Members[o.Name()].(*ssa.Global); ok {
				return fe.globalVal(c.st, g)
			}
		}
		return fe.externGlobal(o)
	}
	return c.fail("unsupported object %v", obj)
}

// externGlobal: a package-level variable of a package without SSA (dependency), e.g. io.EOF.
func (fe *FnExec) externGlobal(o *types.Var) Val {
	if pkg := fe.eng.prog.ImportedPackage(o.Pkg().Path()); pkg != nil {
		if g, ok := pkg.Members[o.Name()].(*ssa.Global); ok {
			return fe.globalVal(nil, g)
		}
	}
	return RefV{fe.declareOnce("g."+o.Pkg().Path()+"."+o.Name(), "Int")}
}

func (c *EvalCtx) evalBinary(x *ast.BinaryExpr) Val {
	fe := c.fe
	switch x.Op {
	case token.LAND:
		return BoolV{tAnd(c.boolOf(c.eval(x.X)), c.boolOf(c.eval(x.Y)))}
	case token.LOR:
		return BoolV{tOr(c.boolOf(c.eval(x.X)), c.boolOf(c.eval(x.Y)))}
	}
	a, b := c.eval(x.X), c.eval(x.Y)
	// address of a nested struct compared with a struct value: compare the values
	if pa, ok := a.(PtrV); ok {
		if _, isS := b.(StructV); isS {
			a = fe.load(c.st, pa)
		}
	}
	if pb, ok := b.(PtrV); ok {
		if _, isS := a.(StructV); isS {
			b = fe.load(c.st, pb)
		}
	}
	switch x.Op {
	case token.EQL:
		return BoolV{fe.valEq(a, b)}
	case token.NEQ:
		return BoolV{tNot(fe.valEq(a, b))}
	}
	at, bt := fe.intTerm(a), fe.intTerm(b)
	switch x.Op {
	case token.LSS:
		return BoolV{sx("<", at, bt)}
	case token.LEQ:
		return BoolV{sx("<=", at, bt)}
	case token.GTR:
		return BoolV{sx(">", at, bt)}
	case token.GEQ:
		return BoolV{sx(">=", at, bt)}
	case token.ADD:
		return IntV{sx("+", at, bt)}
	case token.SUB:
		return IntV{sx("-", at, bt)}
	case token.MUL:
		return IntV{sx("*", at, bt)}
	case token.QUO:
		return IntV{sx("div", at, bt)}
	case token.REM:
		return IntV{sx("mod", at, bt)}
	case token.SHL:
		if bl, ok := x.Y.(*ast.BasicLit); ok {
			n, _ := strconv.Atoi(bl.Value)
			return IntV{sx("*", at, tBig(pow2(uint(n))))}
		}
	}
	return c.fail("unsupported operator %s", x.Op)
}

func (c *EvalCtx) importedPkg(name string) *types.Package {
	if c.pkg == nil {
		return nil
	}
	if al, ok := c.fe.eng.importAlias[c.pkg.Path()]; ok {
		if p, ok := al[name]; ok {
			return p
		}
	}
	for _, p := range c.pkg.Imports() {
		if p.Name() == name {
			return p
		}
	}
	// well-known packages even if not imported by the package
	for _, p := range c.fe.eng.allPkgs {
		if p.Name() == name && (p.Path() == name || strings.HasSuffix(p.Path(), "/"+name)) && !strings.Contains(p.Path(), "internal/") {
			return p
		}
	}
	return nil
}

func (c *EvalCtx) evalSelector(x *ast.SelectorExpr) Val {
	fe := c.fe
	if id, ok := x.X.(*ast.Ident); ok {
		_, isBind := c.binds[id.Name]
		isLocal := false
		if !isBind && c.fr != nil {
			_, isLocal = c.localByName(id.Name)
		}
		if !isBind && !isLocal && c.bound[id.Name] == "" {
			if p := c.importedPkg(id.Name); p != nil {
				if obj := p.Scope().Lookup(x.Sel.Name); obj != nil {
					return c.objVal(obj)
				}
				return c.fail("no %s.%s", id.Name, x.Sel.Name)
			}
		}
	}
	base := c.eval(x.X)
	name := x.Sel.Name
	switch b := base.(type) {
	case PtrV:
		st, ok := b.Pointee.Underlying().(*types.Struct)
		if !ok {
			// pointer to pointer to struct?
			return c.fail("selector .%s on pointer to %s", name, b.Pointee)
		}
		i, path := findField(st, name)
		if i < 0 {
			return c.fail("no field %s in %s", name, b.Pointee)
		}
		p := b
		cur := st
		for _, fi := range path {
			f := cur.Field(fi)
			if p.Cell != nil {
				p = PtrV{Cell: p.Cell, Path: append(append([]int(nil), p.Path...), fi), Pointee: f.Type()}
			} else {
				p = PtrV{Base: p.Base, Prefix: p.Prefix + "." + f.Name(), Pointee: f.Type()}
			}
			if s2, ok := f.Type().Underlying().(*types.Struct); ok {
				cur = s2
			}
		}
		if _, isStruct := p.Pointee.Underlying().(*types.Struct); isStruct {
			return p // address of nested struct: further selectors go through it
		}
		return fe.load(c.st, p)
	case StructV:
		st := b.T.Underlying().(*types.Struct)
		_, path := findField(st, name)
		if path == nil {
			return c.fail("no field %s in %s", name, b.T)
		}
		var v Val = b
		for _, fi := range path {
			sv, ok := v.(StructV)
			if !ok {
				return c.fail("bad field path")
			}
			v = sv.F[fi]
		}
		return v
	}
	return c.fail("selector .%s on %T", name, base)
}

// findField finds a (possibly promoted) field; returns the index path.
func findField(st *types.Struct, name string) (int, []int) {
	for i := 0; i < st.NumFields(); i++ {
		if st.Field(i).Name() == name {
			return i, []int{i}
		}
	}
	for i := 0; i < st.NumFields(); i++ {
		f := st.Field(i)
		if f.Embedded() {
			if s2, ok := f.Type().Underlying().(*types.Struct); ok {
				if j, p := findField(s2, name); j >= 0 {
					return i, append([]int{i}, p...)
				}
			}
		}
	}
	return -1, nil
}

func (c *EvalCtx) evalCall(x *ast.CallExpr) Val {
	fe := c.fe
	fname := ""
	switch f := x.Fun.(type) {
	case *ast.Ident:
		fname = f.Name
	case *ast.SelectorExpr:
		if id, ok := f.X.(*ast.Ident); ok {
			fname = id.Name + "." + f.Sel.Name
		}
	}
	args := x.Args
	switch fname {
	case "old":
		if c.oldBinds != nil {
			n := *c
			n.binds = map[string]Val{}
			for k, v := range c.binds {
				n.binds[k] = v
			}
			for k, v := range c.oldBinds {
				n.binds[k] = v
			}
			n.oldBinds = nil
			if c.old != nil {
				n.st = c.old
			}
			return n.eval(args[0])
		}
		if c.old == nil {
			return c.eval(args[0])
		}
		return c.withState(c.old).eval(args[0])
	case "cb_called", "cb_result":
		// cb_called(f) / cb_result(f): last-call information of the closure passed as f (in a callee's contract)
		if fv, ok := c.eval(args[0]).(FuncV); ok {
			if cs := fe.cbInfo[fv.Fn]; cs != nil {
				if fname == "cb_called" {
					return BoolV{cs.called}
				}
				return cs.last
			}
		}
		if fname == "cb_called" {
			return BoolV{fe.fresh("cb.called", "Bool")}
		}
		return BoolV{fe.fresh("cb.result", "Bool")}
	case "executed":
		// executed("callee#k"): that call of the function under verification was executed on the current path
		// (its latest execution, for a call inside a loop); let-bound results of a call mean something only then
		if len(args) == 1 && c.fr != nil {
			if bl, ok := args[0].(*ast.BasicLit); ok && bl.Kind == token.STRING {
				site, _ := strconv.Unquote(bl.Value)
				if ci, ok := c.fr.callIdx[site]; ok {
					if call, ok := ci.(*ssa.Call); ok {
						if pc, ok := fe.callPC[call]; ok {
							return BoolV{pc}
						}
					}
					return BoolV{"false"}
				}
				return c.fail("executed: no call site %q", site)
			}
		}
		return c.fail("executed(\"callee#k\")")
	case "closure_called", "closure_result":
		// closure_called(k) / closure_result(k): the same, for the k-th function literal of this function
		k := 0
		if bl, ok := args[0].(*ast.BasicLit); ok {
			k, _ = strconv.Atoi(bl.Value)
		}
		if c.fr != nil && k < len(c.fr.fn.AnonFuncs) {
			if cs := fe.cbInfo[c.fr.fn.AnonFuncs[k]]; cs != nil {
				if fname == "closure_called" {
					return BoolV{cs.called}
				}
				return cs.last
			}
		}
		return c.fail("%s(%d): the closure has not been passed to a callee yet", fname, k)
	case "atcall":
		// atcall(e): the value e had where the function literal was handed to its callee (a constant for the literal)
		if c.atcall != nil {
			return c.atcall.eval(args[0])
		}
		return IntV{fe.declareOnce("atcall."+types.ExprString(args[0]), "Int")}
	case "cur":
		// cur(x): the current value of local / parameter x (parameters otherwise denote their entry value)
		if id, ok := args[0].(*ast.Ident); ok && c.fr != nil {
			if v, ok := c.localByName(id.Name); ok {
				return v
			}
		}
		return c.fail("cur(x): x must be a local of the function")
	case "athead":
		// athead(k, e): e evaluated in the state at the head of loop[k] (start of the current iteration)
		k := 0
		if bl, ok := args[0].(*ast.BasicLit); ok {
			k, _ = strconv.Atoi(bl.Value)
		}
		if c.fr != nil {
			for _, li := range c.fr.loops {
				if li.ord == k && li.headState != nil {
					return c.withState(li.headState).eval(args[1])
				}
			}
		}
		if c.fr != nil {
			for _, li := range c.fr.loops {
				if li.ord == k {
					return c.eval(args[1]) // the loop has not been reached on this path: current state
				}
			}
		}
		return c.fail("athead(%d, ...): no such loop", k)
	case "len":
		return IntV{fe.lenOf(c.eval(args[0]))}
	case "cap":
		if s, ok := c.eval(args[0]).(SliceV); ok {
			return IntV{s.Cap}
		}
		return c.fail("cap of non-slice")
	case "implies":
		return BoolV{tImp(c.boolOf(c.eval(args[0])), c.boolOf(c.eval(args[1])))}
	case "iff":
		return BoolV{tEq(c.boolOf(c.eval(args[0])), c.boolOf(c.eval(args[1])))}
	case "ite":
		cond := c.boolOf(c.eval(args[0]))
		a, b := c.eval(args[1]), c.eval(args[2])
		if ab, ok := a.(BoolV); ok {
			return BoolV{tIte(cond, ab.T, c.boolOf(b))}
		}
		return IntV{tIte(cond, fe.intTerm(a), fe.intTerm(b))}
	case "forall", "exists":
		// forall(i, lo, hi, body): lo <= i < hi
		id := args[0].(*ast.Ident).Name
		lo := fe.intTerm(c.eval(args[1]))
		hi := fe.intTerm(c.eval(args[2]))
		fe.nfresh++
		qv := sym(fmt.Sprintf("q.%s!%d", id, fe.nfresh))
		n := *c
		n.bound = map[string]Term{}
		for k, v := range c.bound {
			n.bound[k] = v
		}
		n.bound[id] = qv
		body := n.boolOf(n.eval(args[3]))
		rng := tAnd(sx("<=", lo, qv), sx("<", qv, hi))
		if fname == "forall" {
			return BoolV{fmt.Sprintf("(forall ((%s Int)) %s)", qv, tImp(rng, body))}
		}
		return BoolV{fmt.Sprintf("(exists ((%s Int)) %s)", qv, tAnd(rng, body))}
	case "uint64", "int64", "int", "uint", "uint32", "int32", "uint8", "byte", "uintptr":
		return IntV{fe.intTerm(c.eval(args[0]))}
	case "wrap_u64":
		return IntV{sx("wrapm_u64", fe.intTerm(c.eval(args[0])))}
	case "wrap_s64":
		return IntV{sx("wrapm_s64", fe.intTerm(c.eval(args[0])))}
	case "wrap_u32":
		return IntV{sx("wrapm_u32", fe.intTerm(c.eval(args[0])))}
	case "min":
		return IntV{sx("imin", fe.intTerm(c.eval(args[0])), fe.intTerm(c.eval(args[1])))}
	case "max":
		return IntV{sx("imax", fe.intTerm(c.eval(args[0])), fe.intTerm(c.eval(args[1])))}
	case "ref":
		return IntV{termOf(c.eval(args[0]))}
	case "isnil":
		return BoolV{tEq(termOf(c.eval(args[0])), "0")}
	case "typeis":
		v := c.eval(args[0])
		tn, _ := strconv.Unquote(args[1].(*ast.BasicLit).Value)
		return BoolV{tAnd(tNot(tEq(termOf(v), "0")), tEq(sx("dyn", termOf(v)), tInt(int64(fe.tidByName(tn)))))}
	case "implements":
		v := c.eval(args[0])
		tn, _ := strconv.Unquote(args[1].(*ast.BasicLit).Value)
		pred := "impl." + tn
		fe.eng.noteIfaceName(pred)
		return BoolV{tAnd(tNot(tEq(termOf(v), "0")), sx(sym(pred), sx("dyn", termOf(v))))}
	case "objinv":
		// objinv(x): the object invariant(s) of x, for whichever in-repo type with invariants x has
		v := c.eval(args[0])
		var cs []Term
		if obj, ok := fe.objOf(v); ok {
			for _, inv := range fe.invsOf(obj.Pointee) {
				cs = append(cs, fe.invCtx(c.st, obj).evalBool(inv.X))
			}
			return BoolV{tAnd(cs...)}
		}
		ref := termOf(v)
		var static *types.Interface
		if id, ok := args[0].(*ast.Ident); ok {
			if t := c.identType(id.Name); t != nil {
				static, _ = t.Underlying().(*types.Interface)
			}
		}
		for _, tn := range sortedKeys(fe.eng.voc.TypeInvs) {
			T := fe.eng.lookupType(tn)
			if T == nil {
				continue
			}
			if static != nil && !types.Implements(types.NewPointer(T), static) {
				continue // the variable's static type rules this dynamic type out
			}
			cond := tAnd(sx("<", "HW", ref), tEq(sx("dyn", ref), tInt(int64(fe.tid(types.NewPointer(T))))))
			obj := PtrV{Base: ref, Prefix: typeName(T), Pointee: T}
			for _, inv := range fe.invsOf(T) {
				cs = append(cs, tImp(cond, fe.invCtx(c.st, obj).evalBool(inv.X)))
			}
		}
		return BoolV{tAnd(cs...)}
	case "binsize":
		// binsize(x): encoding/binary size of the fixed-size value boxed in interface x (of *x when x boxes a pointer)
		v := c.eval(args[0])
		if rv, ok := v.(RefV); ok {
			if t, ok := fe.boxType[rv.T]; ok {
				if pt, isP := t.Underlying().(*types.Pointer); isP {
					t = pt.Elem()
				}
				if k, ok := intKindOf(t); ok {
					return IntV{tInt(int64(k.bits / 8))}
				}
			}
		}
		return IntV{fe.fresh("binsize", "Int")}
	case "freshobj":
		// freshobj(x): x was allocated by this call (distinct from everything that existed before)
		v := termOf(c.eval(args[0]))
		if c.hwPre != "" {
			// in a callee's contract at a call site: allocated during that call
			return BoolV{tAnd(sx("<", c.hwPre, v), sx("<=", v, c.hwPost))}
		}
		return BoolV{sx("<", "HW", v)}
	case "sumlen":
		// total length of the elements of a slice of byte slices
		v := c.eval(args[0])
		if sl, ok := v.(SliceV); ok {
			if sl.Elems != nil {
				t := "0"
				for _, e := range sl.Elems {
					t = sx("+", t, fe.lenOf(e))
				}
				return IntV{t}
			}
			fe.eng.noteUFun("psum", 2)
			return IntV{sx("psum", sl.Ref, sl.Len)}
		}
		return c.fail("sumlen of non-slice")
	case "psum":
		v := c.eval(args[0])
		k := fe.intTerm(c.eval(args[1]))
		fe.eng.noteUFun("psum", 2)
		return IntV{sx("psum", termOf(v), k)}
	case "iserr":
		// iserr(e, sentinel): errors.Is-like: identity or wraps
		e := termOf(c.eval(args[0]))
		s := termOf(c.eval(args[1]))
		fe.eng.noteUPred("wraps", 2)
		return BoolV{tOr(tEq(e, s), sx("wraps", e, s))}
	}
	// ghost fields
	if g, ok := fe.eng.voc.Ghost[fname]; ok {
		key := c.ghostKey(g, args)
		sel := sx("select", fe.heapGet(c.st, "ghost."+g.Name, g.Sort), key)
		if g.Sort == "Bool" {
			return BoolV{sel}
		}
		if g.Lo != "" && c.bound == nil {
			fe.assume(tAnd(sx("<=", g.Lo, sel), sx("<=", sel, g.Hi)), "range of ghost field "+g.Name)
		}
		return IntV{sel}
	}
	if n, ok := fe.eng.voc.UFuns[fname]; ok {
		if n != len(args) {
			return c.fail("%s expects %d arguments", fname, n)
		}
		var ts []Term
		for _, a := range args {
			ts = append(ts, termOf(c.eval(a)))
		}
		if n == 0 {
			return IntV{sym(fname)}
		}
		return IntV{sx(sym(fname), ts...)}
	}
	if n, ok := fe.eng.voc.UPreds[fname]; ok {
		if n != len(args) {
			return c.fail("%s expects %d arguments", fname, n)
		}
		var ts []Term
		for _, a := range args {
			ts = append(ts, termOf(c.eval(a)))
		}
		return BoolV{sx(sym(fname), ts...)}
	}
	if n, ok := fe.eng.voc.DefName[fname]; ok || fname == "vsize" {
		if fname == "vsize" {
			n = 1
		}
		if n != len(args) {
			return c.fail("%s expects %d arguments", fname, n)
		}
		var ts []Term
		for _, a := range args {
			ts = append(ts, fe.intTerm(c.eval(a)))
		}
		t := sx(sym(fname), ts...)
		if fe.eng.voc.DefBool[fname] {
			return BoolV{t}
		}
		return IntV{t}
	}
	return c.fail("unknown function %q in contract expression", fname)
}

// ghostKey builds the map key of a ghost field application g(a1, ..., an).
func (c *EvalCtx) ghostKey(g *GhostField, args []ast.Expr) Term {
	obj := termOf(c.eval(args[0]))
	key := obj
	if g.Key != "" {
		key = sx(sym(g.Key), obj)
	}
	if len(args) > 1 {
		ts := []Term{key}
		for _, a := range args[1:] {
			ts = append(ts, termOf(c.eval(a)))
		}
		fn := fmt.Sprintf("pair%d", len(ts))
		c.fe.eng.noteUFun(fn, len(ts))
		key = sx(fn, ts...)
	}
	return key
}

func (fe *FnExec) tidByName(name string) int {
	if n, ok := fe.tids[name]; ok {
		return n
	}
	n := len(fe.tids) + 1
	fe.tids[name] = n
	return n
}

// ---------------------------------------------------------------------------
// lvalues (modifies clauses, ghost updates)

// havocLvalue forgets the location(s) denoted by x in state st. ctx evaluates
// sub-expressions (in the pre-state).
func (fe *FnExec) havocLvalue(ctx *EvalCtx, st *State, x *CExpr) {
	fe.assignLvalue(ctx, st, x, nil)
}

// assignLvalue stores nv (or a fresh value when nv == nil) into the location denoted by x.
func (fe *FnExec) assignLvalue(ctx *EvalCtx, st *State, x *CExpr, nv Val) {
	e := x.E
	if p, ok := e.(*ast.ParenExpr); ok {
		e = p.X
	}
	switch l := e.(type) {
	case *ast.CallExpr:
		if id, ok := l.Fun.(*ast.Ident); ok {
			if g, ok := fe.eng.voc.Ghost[id.Name]; ok {
				key := ctx.ghostKey(g, l.Args)
				hn := "ghost." + g.Name
				var t Term
				if nv != nil {
					if g.Sort == "Bool" {
						t = ctx.boolOf(nv)
					} else {
						t = fe.intTerm(nv)
					}
				} else {
					t = fe.fresh("mod."+g.Name, g.Sort)
				}
				fe.heapSet(st, hn, g.Sort, sx("store", fe.heapGet(st, hn, g.Sort), key, t))
				return
			}
			if id.Name == "all" && len(l.Args) == 1 {
				// all(g): the whole ghost field map
				if gi, ok := l.Args[0].(*ast.Ident); ok {
					if g, ok := fe.eng.voc.Ghost[gi.Name]; ok {
						fe.heapGet(st, "ghost."+g.Name, g.Sort)
						fe.heapFresh(st, "ghost."+g.Name)
						return
					}
				}
			}
		}
	case *ast.StarExpr:
		v := ctx.eval(l.X)
		if rv, ok := v.(RefV); ok {
			if t, ok := fe.ifaceType[rv.T]; ok {
				v = PtrV{Base: rv.T, Prefix: typeName(t), Pointee: t}
			} else if bv, ok := fe.boxed[rv.T]; ok {
				v = bv
			}
		}
		if p, ok := v.(PtrV); ok {
			if nv == nil {
				nv = fe.freshVal(p.Pointee, "mod")
			}
			fe.store(st, p, nv)
			return
		}
	case *ast.SelectorExpr:
		ctx2 := *ctx
		ctx2.wantAddr = true
		base := ctx2.eval(l.X)
		if b, ok := base.(PtrV); ok {
			if stt, ok := b.Pointee.Underlying().(*types.Struct); ok {
				_, path := findField(stt, l.Sel.Name)
				if path != nil {
					p := b
					cur := stt
					for _, fi := range path {
						f := cur.Field(fi)
						if p.Cell != nil {
							p = PtrV{Cell: p.Cell, Path: append(append([]int(nil), p.Path...), fi), Pointee: f.Type()}
						} else {
							p = PtrV{Base: p.Base, Prefix: p.Prefix + "." + f.Name(), Pointee: f.Type()}
						}
						if s2, ok := f.Type().Underlying().(*types.Struct); ok {
							cur = s2
						}
					}
					if nv == nil {
						nv = fe.freshVal(p.Pointee, "mod")
					}
					fe.store(st, p, nv)
					return
				}
			}
		}
	case *ast.Ident:
		// a local cell of the current function (ghost updates), or a pointer parameter: *p
		if ctx.fr != nil {
			for _, b := range ctx.fr.fn.Blocks {
				for _, in := range b.Instrs {
					if a, ok := in.(*ssa.Alloc); ok && a.Comment == l.Name {
						if pv, ok := fe.regs[a].(PtrV); ok && pv.Cell != nil {
							if nv == nil {
								nv = fe.freshVal(pv.Pointee, "mod")
							}
							st.cells[pv.Cell] = nv
							return
						}
					}
				}
			}
		}
	}
	fe.errorf("unsupported lvalue %q", x.Src)
}

// ---------------------------------------------------------------------------
// Renamed locals.  Contracts name locals and parameters by their source names.  When the expectation lists are
// written, every such name is recorded with a position-based descriptor (parameter index, or type plus ordinal among the
// locals of that type in block order) in /verif/checks/locals.json; a name the current code no longer has is resolved
// through its descriptor, so that a pure rename is not reported as "contract no longer applies".

type localHint struct {
	Type  string `json:"type,omitempty"`
	Ord   int    `json:"ord,omitempty"`
	Param int    `json:"param"` // index into the function's parameters, -1 for a local
	Res   int    `json:"res,omitempty"` // 1 + index of a named result
}

func allocTypeOrd(fn *ssa.Function, a *ssa.Alloc) (string, int) {
	ts := a.Type().(*types.Pointer).Elem().String()
	n := 0
	for _, b := range fn.Blocks {
		for _, in := range b.Instrs {
			if x, ok := in.(*ssa.Alloc); ok && x.Comment != "" && x.Type().(*types.Pointer).Elem().String() == ts {
				n++
				if x == a {
					return ts, n
				}
			}
		}
	}
	return ts, 0
}

func (e *Engine) noteLocalUse(fnName, name string, fn *ssa.Function, a *ssa.Alloc) {
	e.localMu.Lock()
	defer e.localMu.Unlock()
	if e.localsUsed == nil {
		e.localsUsed = map[string]map[string]localHint{}
	}
	if e.localsUsed[fnName] == nil {
		e.localsUsed[fnName] = map[string]localHint{}
	}
	if _, ok := e.localsUsed[fnName][name]; ok {
		return
	}
	h := localHint{Param: -1}
	for i, p := range fn.Params {
		if p.Name() == a.Comment {
			h.Param = i // naive form keeps parameters in cells named after them
		}
	}
	h.Type, h.Ord = allocTypeOrd(fn, a)
	e.localsUsed[fnName][name] = h
}

func (c *EvalCtx) byHint(name string) (Val, string, bool) {
	hs := c.fe.eng.localHints[c.fr.name]
	h, ok := hs[name]
	if !ok {
		return nil, "", false
	}
	fn := c.fr.fn
	if h.Res > 0 {
		if v, ok := c.binds[fmt.Sprintf("result%d", h.Res-1)]; ok {
			return v, fmt.Sprintf("result%d", h.Res-1), true
		}
		return nil, "", false
	}
	if h.Param >= 0 && h.Param < len(fn.Params) {
		p := fn.Params[h.Param]
		if v, ok := c.binds[p.Name()]; ok && p.Name() != name {
			return v, p.Name(), true
		}
	}
	n := 0
	for _, b := range fn.Blocks {
		for _, in := range b.Instrs {
			if x, ok := in.(*ssa.Alloc); ok && x.Comment != "" && x.Type().(*types.Pointer).Elem().String() == h.Type {
				n++
				if n == h.Ord {
					base := name
					if i := strings.Index(name, "__"); i > 0 {
						base = name[:i]
					}
					if x.Comment == base {
						return nil, "", false
					}
					// the name must really be gone from the function
					for _, b2 := range fn.Blocks {
						for _, in2 := range b2.Instrs {
							if y, ok := in2.(*ssa.Alloc); ok && y.Comment == base {
								return nil, "", false
							}
						}
					}
					v, ok := c.localValue(x)
					return v, x.Comment, ok
				}
			}
		}
	}
	return nil, "", false
}

func (e *Engine) noteParamUse(fnName, name string, i, res int) {
	e.localMu.Lock()
	defer e.localMu.Unlock()
	if e.localsUsed == nil {
		e.localsUsed = map[string]map[string]localHint{}
	}
	if e.localsUsed[fnName] == nil {
		e.localsUsed[fnName] = map[string]localHint{}
	}
	if _, ok := e.localsUsed[fnName][name]; !ok {
		e.localsUsed[fnName][name] = localHint{Param: i, Res: res}
	}
}
