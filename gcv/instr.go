package main

import (
	"fmt"
	"go/ast"
	"os"
	"go/token"
	"go/types"
	"sort"
	"strings"

	"golang.org/x/tools/go/ssa"
)

func (fe *FnExec) execBlock(fr *frame, b *ssa.BasicBlock, st *State) {
	for _, in := range b.Instrs {
		fe.execInstr(fr, st, in)
	}
}

func (fe *FnExec) intTerm(v Val) Term {
	switch x := v.(type) {
	case IntV:
		return x.T
	case BoolV:
		return tIte(x.T, "1", "0")
	}
	return termOf(v)
}

func (fe *FnExec) lenOf(v Val) Term {
	switch x := v.(type) {
	case SliceV:
		return x.Len
	case StrV:
		return sx("strlen", x.T)
	case ArrayV:
		return tInt(x.N)
	case PtrV: // pointer to array
		if a, ok := x.Pointee.Underlying().(*types.Array); ok {
			return tInt(a.Len())
		}
	}
	l := fe.fresh("len", "Int")
	fe.assume(tAnd(sx("<=", "0", l), sx("<=", l, maxLen)), "length of opaque container")
	return l
}

func (fe *FnExec) execInstr(fr *frame, st *State, in ssa.Instruction) {
	switch x := in.(type) {
	case *ssa.DebugRef:
	case *ssa.Alloc:
		fe.doAlloc(st, x)
	case *ssa.Store:
		fe.sharedStateObligation(fr, st, x.Addr, "stores into", x.Pos())
		p := fe.asPtr(fe.val(x.Addr), x.Addr.Type().Underlying().(*types.Pointer).Elem())
		fe.store(st, p, fe.val(x.Val))
	case *ssa.UnOp:
		fe.regs[x] = fe.doUnOp(fr, st, x)
		if x.Op == token.MUL {
			if rec := fe.guardPtr[x.X]; rec != nil {
				if t := termOf(fe.regs[x]); t != "0" {
					fe.guardedVals[t] = rec
				}
			}
		}
	case *ssa.BinOp:
		fe.regs[x] = fe.doBinOp(fr, st, x)
	case *ssa.Call:
		fe.regs[x] = fe.doCall(fr, st, x, x.Common(), x.Type())
		if !fr.inlined && fr == fe.top {
			if fe.callPC == nil {
				fe.callPC = map[*ssa.Call]Term{}
			}
			fe.callPC[x] = st.pc
		}
	case *ssa.Extract:
		t := fe.val(x.Tuple)
		if tv, ok := t.(TupleV); ok && x.Index < len(tv.E) {
			fe.regs[x] = tv.E[x.Index]
		} else {
			fe.regs[x] = fe.freshVal(x.Type(), "ex")
		}
	case *ssa.FieldAddr:
		base := fe.val(x.X)
		stt := x.X.Type().Underlying().(*types.Pointer).Elem()
		p := fe.asPtr(base, stt)
		f := stt.Underlying().(*types.Struct).Field(x.Field)
		if p.Cell != nil {
			fe.regs[x] = PtrV{Cell: p.Cell, Path: append(append([]int(nil), p.Path...), x.Field), Pointee: f.Type()}
		} else {
			fe.regs[x] = PtrV{Base: p.Base, Prefix: p.Prefix + "." + f.Name(), Pointee: f.Type(), Interior: true}
			if g, ok := fe.eng.voc.Guards[typeName(stt)+"."+f.Name()]; ok && p.Base != "0" {
				// a guarded field of an object that other goroutines can reach: the guard must hold here
				// (an object allocated by this very call is not shared yet)
				this := p
				this.Pointee = stt
				cond := fe.invCtx(st, this).evalBool(g.X)
				fe.oblige(fr, "guard:"+typeName(stt)+"."+f.Name(), g.Props, st.pc, tOr(sx("<", "HW", p.Base), cond), x.Pos(), "guarded field: "+g.Src)
			}
			if g, ok := fe.eng.voc.UseGuard[typeName(stt)+"."+f.Name()]; ok && p.Base != "0" {
				this := p
				this.Pointee = stt
				fe.guardPtr[x] = &guardRec{this: this, g: g, name: typeName(stt) + "." + f.Name()}
			}
		}
	case *ssa.Field:
		sv := fe.val(x.X)
		if s, ok := sv.(StructV); ok && x.Field < len(s.F) {
			fe.regs[x] = s.F[x.Field]
		} else {
			fe.regs[x] = fe.freshVal(x.Type(), "fld")
		}
	case *ssa.IndexAddr:
		fe.regs[x] = fe.doIndexAddr(fr, st, x)
	case *ssa.Index:
		c := fe.val(x.X)
		i := fe.intTerm(fe.val(x.Index))
		fe.oblige(fr, fr.ords[in], []string{"C09"}, st.pc, tAnd(sx("<=", "0", i), sx("<", i, fe.lenOf(c))), x.Pos(), "index in range")
		fe.regs[x] = fe.freshVal(x.Type(), "idx")
	case *ssa.Lookup:
		if x.CommaOk {
			fe.regs[x] = TupleV{E: []Val{fe.freshVal(x.Type().(*types.Tuple).At(0).Type(), "mapv"), BoolV{fe.fresh("mapok", "Bool")}}}
			fe.lookupAssumes(fr, st, x, fe.regs[x].(TupleV).E[0])
		} else {
			if isString(x.X.Type()) {
				c := fe.val(x.X)
				i := fe.intTerm(fe.val(x.Index))
				fe.oblige(fr, "strindex", []string{"C09"}, st.pc, tAnd(sx("<=", "0", i), sx("<", i, fe.lenOf(c))), x.Pos(), "string index in range")
			}
			fe.regs[x] = fe.freshVal(x.Type(), "mapv")
			fe.lookupAssumes(fr, st, x, fe.regs[x])
		}
	case *ssa.Slice:
		fe.sharedStateObligation(fr, st, x.X, "takes a writable slice of", x.Pos())
		fe.regs[x] = fe.doSlice(fr, st, x)
	case *ssa.MakeSlice:
		l := fe.intTerm(fe.val(x.Len))
		c := fe.intTerm(fe.val(x.Cap))
		var bound Term
		note := "no bound given"
		if fr.con != nil {
			ord := 0
			fmt.Sscanf(fr.ords[in], "alloc[%d]", &ord)
			if bx, ok := fr.con.Allocs[ord]; ok {
				ctx := fe.ctxFor(fr, st)
				bound = termOf(ctx.eval(bx.E))
				note = "bounded_by " + bx.Src
			}
		}
		goal := tAnd(sx("<=", "0", l), sx("<=", l, c))
		if bound != "" {
			goal = tAnd(goal, sx("<=", c, bound))
		} else {
			goal = tAnd(goal, sx("<=", c, maxLen))
		}
		fe.oblige(fr, fr.ords[in], []string{"C09"}, st.pc, goal, x.Pos(), note)
		r := fe.fresh("mk", "Int")
		fe.assume(sx("<", "0", r), "fresh slice")
		fe.regs[x] = SliceV{Ref: r, Len: l, Cap: c}
	case *ssa.MakeMap, *ssa.MakeChan:
		r := fe.fresh("mk", "Int")
		fe.assume(sx("<", "0", r), "fresh object")
		fe.regs[x.(ssa.Value)] = RefV{r}
	case *ssa.MapUpdate:
		// map contents are not tracked; contracts may assert what is stored
		if fr.con != nil {
			if cs := fr.con.Calls[fr.ords[in]]; cs != nil {
				for _, a := range cs.Asserts {
					ctx := fe.ctxFor(fr, st)
					ctx.binds["arg0"], ctx.binds["key"], ctx.binds["value"] = fe.val(x.Map), fe.val(x.Key), fe.val(x.Value)
					g := ctx.evalBool(a.X)
					fe.oblige(fr, fmt.Sprintf("%s.assert:%s", fr.ords[in], a.Label), a.Props, st.pc, g, x.Pos(), a.Src)
				}
			}
		}
	case *ssa.MakeInterface:
		fe.regs[x] = fe.doMakeInterface(st, x)
	case *ssa.ChangeInterface:
		fe.regs[x] = fe.val(x.X)
	case *ssa.ChangeType:
		fe.regs[x] = fe.val(x.X)
	case *ssa.Convert:
		fe.regs[x] = fe.doConvert(st, x)
	case *ssa.MultiConvert:
		fe.regs[x] = fe.freshVal(x.Type(), "conv")
	case *ssa.SliceToArrayPointer:
		fe.regs[x] = fe.freshVal(x.Type(), "s2a")
	case *ssa.TypeAssert:
		fe.regs[x] = fe.doTypeAssert(fr, st, x)
	case *ssa.MakeClosure:
		fv := FuncV{Fn: x.Fn.(*ssa.Function)}
		for _, b := range x.Bindings {
			fv.Bind = append(fv.Bind, fe.val(b))
		}
		fe.regs[x] = fv
	case *ssa.Phi:
		// resolved at block entry
		if _, ok := fe.regs[x]; !ok {
			fe.regs[x] = fe.freshVal(x.Type(), "phi")
		}
	case *ssa.Range:
		fe.regs[x] = RefV{fe.fresh("range", "Int")}
	case *ssa.Next:
		tv := TupleV{}
		tt := x.Type().(*types.Tuple)
		for i := 0; i < tt.Len(); i++ {
			tv.E = append(tv.E, fe.freshVal(tt.At(i).Type(), "next"))
		}
		fe.regs[x] = tv
	case *ssa.Select:
		// channel contents are not modelled; only the case index is constrained (a blocking select picks one of its cases)
		fe.abstracted["select"]++
		sv := fe.freshVal(x.Type(), "select")
		if tv, ok := sv.(TupleV); ok && len(tv.E) > 0 {
			if iv, ok := tv.E[0].(IntV); ok {
				lo := "0"
				if !x.Blocking {
					lo = "(- 1)"
				}
				fe.assume(tAnd(sx("<=", lo, iv.T), sx("<", iv.T, tInt(int64(len(x.States))))), "select yields the index of one of its cases")
			}
		}
		fe.regs[x] = sv
		if first, ok := fr.ords[in]; ok && strings.HasPrefix(first, "send#") {
			k := 0
			fmt.Sscanf(first, "send#%d", &k)
			for _, stt := range x.States {
				if stt.Dir == types.SendOnly {
					// what a select offers on a channel is asserted whether or not that case is the one chosen
					fe.sendAsserts(fr, st, fmt.Sprintf("send#%d", k), fe.val(stt.Chan), fe.val(stt.Send), x.Pos())
					k++
				}
			}
		}
	case *ssa.Send:
		fe.abstracted["send"]++
		fe.sendAsserts(fr, st, fr.ords[in], fe.val(x.Chan), fe.val(x.X), x.Pos())
	case *ssa.Go:
		fe.doGo(fr, st, x)
	case *ssa.Defer:
		rec := deferRec{instr: x, guard: "true"}
		cc := x.Common()
		if !cc.IsInvoke() {
			rec.fn = fe.val(cc.Value)
		} else {
			rec.fn = fe.val(cc.Value)
		}
		for _, a := range cc.Args {
			rec.args = append(rec.args, fe.val(a))
		}
		st.defers = append(st.defers, rec)
	case *ssa.RunDefers:
		fe.runDefers(fr, st)
	case *ssa.Panic:
		ord := 0
		fmt.Sscanf(fr.ords[in], "panic[%d]", &ord)
		if fr.con != nil && fr.con.MayPanic[ord] {
			break
		}
		fe.oblige(fr, fr.ords[in]+":unreachable", []string{"C09"}, st.pc, "false", x.Pos(), "explicit panic must be unreachable")
	case *ssa.Return:
		fe.doReturn(fr, st, x)
	case *ssa.Jump, *ssa.If:
	default:
		fe.abstracted[fmt.Sprintf("%T", in)]++
		if v, ok := in.(ssa.Value); ok {
			fe.regs[v] = fe.freshVal(v.Type(), "abs")
		}
	}
}

func (fe *FnExec) doAlloc(st *State, x *ssa.Alloc) {
	et := x.Type().(*types.Pointer).Elem()
	if _, ok := et.Underlying().(*types.Struct); ok && x.Heap {
		fe.allocN++
		ref := fe.fresh("obj."+typeName(et), "Int")
		fe.assume(sx("<", fe.hw, ref), "fresh object id: above everything allocated so far")
		fe.hw = ref
		fe.typedRef(ref, et)
		p := PtrV{Base: ref, Prefix: typeName(et), Pointee: et}
		fe.regs[x] = p
		fe.storeHeap(st, p.Prefix, ref, et, fe.zeroVal(et))
		return
	}
	st.cells[x] = fe.zeroVal(et)
	fe.regs[x] = PtrV{Cell: x, Pointee: et}
}

func (fe *FnExec) doUnOp(fr *frame, st *State, x *ssa.UnOp) Val {
	switch x.Op {
	case token.MUL:
		if g, ok := x.X.(*ssa.Global); ok {
			return fe.globalVal(st, g)
		}
		pt := x.X.Type().Underlying().(*types.Pointer).Elem()
		pp := fe.asPtr(fe.val(x.X), pt)
		lv := fe.load(st, pp)
		if pp.ElemOf != nil {
			fe.elemFacts(fe.top, st, pp, lv)
		}
		return lv
	case token.NOT:
		if b, ok := fe.val(x.X).(BoolV); ok {
			return BoolV{tNot(b.T)}
		}
	case token.SUB:
		if k, ok := intKindOf(x.Type()); ok {
			return IntV{k.wrap1(sx("-", "0", fe.intTerm(fe.val(x.X))))}
		}
	case token.XOR:
		if k, ok := intKindOf(x.Type()); ok {
			v := fe.intTerm(fe.val(x.X))
			if k.signed {
				return IntV{sx("-", sx("-", "0", v), "1")}
			}
			return IntV{sx("-", tBig(k.max()), v)}
		}
	case token.ARROW:
		fe.abstracted["chan-recv"]++
	}
	return fe.freshVal(x.Type(), "unop")
}

func (fe *FnExec) doBinOp(fr *frame, st *State, x *ssa.BinOp) Val {
	a, b := fe.val(x.X), fe.val(x.Y)
	switch x.Op {
	case token.EQL, token.NEQ:
		eq := fe.valEq(a, b)
		if x.Op == token.NEQ {
			eq = tNot(eq)
		}
		return BoolV{eq}
	}
	if isBool(x.X.Type()) {
		ab, ok1 := a.(BoolV)
		bb, ok2 := b.(BoolV)
		if ok1 && ok2 {
			switch x.Op {
			case token.LAND, token.AND:
				return BoolV{tAnd(ab.T, bb.T)}
			case token.LOR, token.OR:
				return BoolV{tOr(ab.T, bb.T)}
			}
		}
		return fe.freshVal(x.Type(), "bop")
	}
	if k, ok := intKindOf(x.X.Type()); ok {
		at, bt := fe.intTerm(a), fe.intTerm(b)
		switch x.Op {
		case token.LSS:
			return BoolV{sx("<", at, bt)}
		case token.LEQ:
			return BoolV{sx("<=", at, bt)}
		case token.GTR:
			return BoolV{sx(">", at, bt)}
		case token.GEQ:
			return BoolV{sx(">=", at, bt)}
		case token.ADD:
			return IntV{k.wrap1(sx("+", at, bt))}
		case token.SUB:
			return IntV{k.wrap1(sx("-", at, bt))}
		case token.MUL:
			return IntV{k.wrapm(sx("*", at, bt))}
		case token.QUO, token.REM:
			fe.oblige(fr, fr.ords[x]+":nonzero", []string{"C09"}, st.pc, tNot(tEq(bt, "0")), x.Pos(), "divisor is not zero")
			if x.Op == token.QUO {
				if k.signed {
					return IntV{k.wrap1(sx("tdiv", at, bt))}
				}
				return IntV{sx("div", at, bt)}
			}
			if k.signed {
				return IntV{sx("trem", at, bt)}
			}
			return IntV{sx("mod", at, bt)}
		case token.SHL:
			if c, ok := x.Y.(*ssa.Const); ok {
				if n, ok := constInt(c); ok && n >= 0 && n < 64 {
					return IntV{k.wrapm(sx("*", at, tBig(pow2(uint(n)))))}
				}
			}
			r := fe.fresh("shl", "Int")
			fe.assume(k.inRange(r), "range")
			fe.assume(tEq(r, k.wrapm(sx("bshl", at, bt))), "uninterpreted shift")
			return IntV{r}
		case token.SHR:
			if c, ok := x.Y.(*ssa.Const); ok {
				if n, ok := constInt(c); ok && n >= 0 && n < 64 {
					return IntV{sx("div", at, tBig(pow2(uint(n))))}
				}
			}
			r := fe.fresh("shr", "Int")
			fe.assume(k.inRange(r), "range")
			return IntV{r}
		case token.AND:
			// x & (2^n - 1) with constant mask
			if c, ok := x.Y.(*ssa.Const); ok {
				if n, ok := constInt(c); ok && n >= 0 && (n&(n+1)) == 0 && !k.signed {
					return IntV{sx("mod", at, tInt(n+1))}
				}
			}
			r := fe.fresh("and", "Int")
			fe.assume(k.inRange(r), "range")
			if !k.signed {
				fe.assume(tAnd(sx("<=", r, at), sx("<=", r, bt)), "x&y <= x,y (unsigned)")
			}
			fe.assume(tEq(r, sx("band", at, bt)), "uninterpreted and")
			return IntV{r}
		case token.OR, token.XOR, token.AND_NOT:
			r := fe.fresh("bit", "Int")
			fe.assume(k.inRange(r), "range")
			if x.Op == token.OR {
				fe.assume(tEq(r, sx("bor", at, bt)), "uninterpreted or")
				if !k.signed {
					fe.assume(tAnd(sx(">=", r, at), sx(">=", r, bt)), "x|y >= x,y (unsigned)")
				}
			}
			return IntV{r}
		}
	}
	if isString(x.X.Type()) {
		as, ok1 := a.(StrV)
		bs, ok2 := b.(StrV)
		if ok1 && ok2 && x.Op == token.ADD {
			r := fe.fresh("cat", "Int")
			fe.assume(tEq(sx("strlen", r), sx("+", sx("strlen", as.T), sx("strlen", bs.T))), "concat length")
			return StrV{r}
		}
	}
	return fe.freshVal(x.Type(), "bop")
}

func constInt(c *ssa.Const) (int64, bool) {
	if c.Value == nil {
		return 0, false
	}
	if !c.IsNil() {
		if k, ok := intKindOf(c.Type()); ok {
			_ = k
			if u := c.Uint64(); u <= 1<<62 {
				return int64(u), true
			}
			return c.Int64(), true
		}
	}
	return 0, false
}

func (fe *FnExec) valEq(a, b Val) Term {
	switch x := a.(type) {
	case BoolV:
		if y, ok := b.(BoolV); ok {
			return tEq(x.T, y.T)
		}
	case StructV:
		if y, ok := b.(StructV); ok && len(x.F) == len(y.F) {
			var cs []Term
			for i := range x.F {
				cs = append(cs, fe.valEq(x.F[i], y.F[i]))
			}
			return tAnd(cs...)
		}
	case SliceV:
		// only comparison with nil is legal
		return tEq(x.Ref, termOf(b))
	case PtrV:
		if x.Cell != nil {
			if y, ok := b.(PtrV); ok && y.Cell != nil {
				if x.Cell == y.Cell {
					return "true"
				}
				return "false"
			}
			return "false" // address of a local is never nil / another object
		}
	}
	if y, ok := b.(PtrV); ok && y.Cell != nil {
		return "false"
	}
	if _, ok := b.(SliceV); ok {
		return tEq(termOf(a), termOf(b))
	}
	return tEq(termOf(a), termOf(b))
}

func (fe *FnExec) doIndexAddr(fr *frame, st *State, x *ssa.IndexAddr) Val {
	c := fe.val(x.X)
	i := fe.intTerm(fe.val(x.Index))
	var et types.Type
	switch u := x.X.Type().Underlying().(type) {
	case *types.Slice:
		et = u.Elem()
	case *types.Pointer:
		et = u.Elem().Underlying().(*types.Array).Elem()
	}
	var ln Term
	if p, ok := c.(PtrV); ok { // pointer to array
		at := x.X.Type().Underlying().(*types.Pointer).Elem().Underlying().(*types.Array)
		ln = tInt(at.Len())
		fe.oblige(fr, fr.ords[x], []string{"C09"}, st.pc, tAnd(sx("<=", "0", i), sx("<", i, ln)), x.Pos(), "array index in range")
		if p.Cell != nil {
			if ci, ok := x.Index.(*ssa.Const); ok {
				if n, ok := constInt(ci); ok {
					if av, ok := getPath(st.cells[p.Cell], p.Path).(ArrayV); ok && av.Elem != nil && int(n) < len(av.Elem) {
						return PtrV{Cell: p.Cell, Path: append(append([]int(nil), p.Path...), int(n)), Pointee: et}
					}
				}
			}
			// untracked array element
			if av, ok := getPath(st.cells[p.Cell], p.Path).(ArrayV); ok && av.Elem != nil {
				// symbolic index into a tracked array: forget the tracked elements
				st.cells[p.Cell] = setPath(st.cells[p.Cell], p.Path, ArrayV{Ref: av.Ref, N: av.N})
			}
		}
		sl := SliceV{Ref: termOf(c), Len: ln, Cap: ln}
		return PtrV{ElemOf: &sl, Idx: i, Pointee: et}
	}
	sl, ok := c.(SliceV)
	if !ok {
		sl = fe.freshVal(x.X.Type(), "sl").(SliceV)
	}
	fe.oblige(fr, fr.ords[x], []string{"C09"}, st.pc, tAnd(sx("<=", "0", i), sx("<", i, sl.Len)), x.Pos(), "slice index in range")
	if _, isStruct := et.Underlying().(*types.Struct); isStruct {
		// elements of struct type live in the field maps, keyed by an abstract element address
		fe.eng.noteUFun("elemaddr", 2)
		return PtrV{Base: sx("elemaddr", sl.Ref, i), Prefix: typeName(et), Pointee: et}
	}
	p := PtrV{ElemOf: &sl, Idx: i, Pointee: et}
	return p
}

func (fe *FnExec) doSlice(fr *frame, st *State, x *ssa.Slice) Val {
	c := fe.val(x.X)
	lo := "0"
	if x.Low != nil {
		lo = fe.intTerm(fe.val(x.Low))
	}
	switch u := x.X.Type().Underlying().(type) {
	case *types.Basic: // string
		s := c.(StrV)
		n := sx("strlen", s.T)
		hi := n
		if x.High != nil {
			hi = fe.intTerm(fe.val(x.High))
		}
		fe.oblige(fr, fr.ords[x], []string{"C09"}, st.pc, tAnd(sx("<=", "0", lo), sx("<=", lo, hi), sx("<=", hi, n)), x.Pos(), "string slice bounds")
		if lo == "0" && hi == n {
			return s
		}
		r := fe.fresh("substr", "Int")
		fe.assume(tEq(sx("strlen", r), sx("-", hi, lo)), "substring length")
		return StrV{r}
	case *types.Pointer: // *array
		at := u.Elem().Underlying().(*types.Array)
		n := tInt(at.Len())
		hi := n
		if x.High != nil {
			hi = fe.intTerm(fe.val(x.High))
		}
		mx := n
		if x.Max != nil {
			mx = fe.intTerm(fe.val(x.Max))
		}
		fe.oblige(fr, fr.ords[x], []string{"C09"}, st.pc, tAnd(sx("<=", "0", lo), sx("<=", lo, hi), sx("<=", hi, mx), sx("<=", mx, n)), x.Pos(), "array slice bounds")
		out := SliceV{Ref: fe.arrRef(c), Len: sx("-", hi, lo), Cap: sx("-", mx, lo)}
		if lo != "0" {
			out.Ref = fe.fresh("sub", "Int")
			fe.assume(sx("<", "0", out.Ref), "subslice id")
		}
		if p, ok := c.(PtrV); ok && p.Cell != nil && lo == "0" {
			if av, ok := getPath(st.cells[p.Cell], p.Path).(ArrayV); ok && av.Elem != nil && (x.High == nil) {
				out.Elems = append([]Val(nil), av.Elem...)
			}
		}
		return out
	}
	sl, ok := c.(SliceV)
	if !ok {
		sl = fe.freshVal(x.X.Type(), "sl").(SliceV)
	}
	hi := sl.Len
	if x.High != nil {
		hi = fe.intTerm(fe.val(x.High))
	}
	mx := sl.Cap
	if x.Max != nil {
		mx = fe.intTerm(fe.val(x.Max))
	}
	fe.oblige(fr, fr.ords[x], []string{"C09"}, st.pc, tAnd(sx("<=", "0", lo), sx("<=", lo, hi), sx("<=", hi, mx), sx("<=", mx, sl.Cap)), x.Pos(), "slice bounds")
	out := SliceV{Ref: sl.Ref, Len: sx("-", hi, lo), Cap: sx("-", mx, lo)}
	if lo == "0" {
		if x.High == nil {
			out.Len = sl.Len
		} else {
			out.Len = hi
		}
		if x.Max == nil {
			out.Cap = sl.Cap
		}
	} else {
		// a sub-slice not starting at 0 gets a derived identity: a function of the parent and the start
		fe.eng.noteUFun("subref", 2)
		r := sx("subref", sl.Ref, lo)
		fe.assume(tImp(tEq(sl.Ref, "0"), tEq(r, "0")), "subslice of nil")
		fe.assume(sx("<=", "0", r), "subslice id")
		out.Ref = r
	}
	if sl.Elems != nil && lo == "0" && x.High == nil {
		out.Elems = sl.Elems
	}
	return out
}

func (fe *FnExec) arrRef(v Val) Term {
	if p, ok := v.(PtrV); ok {
		if p.Cell != nil {
			r := fe.declareOnce(fmt.Sprintf("arr.%p", p.Cell), "Int")
			fe.assume(sx("<", "0", r), "array id")
			return r
		}
		return p.Base
	}
	return termOf(v)
}

func (fe *FnExec) tid(t types.Type) int {
	k := typeName(t)
	if n, ok := fe.tids[k]; ok {
		return n
	}
	n := len(fe.tids) + 1
	fe.tids[k] = n
	fe.eng.mu.Lock()
	fe.eng.tidTypes[k] = t
	fe.eng.mu.Unlock()
	return n
}

func (fe *FnExec) doMakeInterface(st *State, x *ssa.MakeInterface) Val {
	v := fe.val(x.X)
	ct := x.X.Type()
	id := fe.tid(ct)
	var ref Term
	switch p := v.(type) {
	case PtrV:
		if p.Cell == nil && p.ElemOf == nil && !p.Interior {
			ref = p.Base
			if ref != "0" {
				fe.ifaceType[ref] = p.Pointee
			}
		}
	case RefV:
		// converting a func / map / chan
		ref = ""
	}
	if ref == "" || ref == "0" {
		ref = fe.fresh("iface", "Int")
		fe.assume(sx("<", "1000", ref), "boxed value id (non-nil, not a sentinel)")
		// a new interface value: distinct from every object and interface value that existed before
		fe.assume(sx("<", fe.hw, ref), "fresh interface value id: above everything allocated so far")
		fe.hw = ref
		fe.assume(tEq(sx("payload", ref), termOf(v)), "boxed payload")
		if pv, ok := v.(PtrV); ok {
			fe.boxed[ref] = pv
		}
	}
	fe.assume(tEq(sx("dyn", ref), tInt(int64(id))), "dynamic type "+typeName(ct))
	fe.boxType[ref] = ct
	return RefV{ref}
}

func (fe *FnExec) doTypeAssert(fr *frame, st *State, x *ssa.TypeAssert) Val {
	v := fe.val(x.X)
	ref := termOf(v)
	var ok Term
	at := x.AssertedType
	if types.IsInterface(at) {
		pred := "impl." + typeName(at)
		fe.eng.noteIface(pred, at)
		ok = tAnd(tNot(tEq(ref, "0")), sx(sym(pred), sx("dyn", ref)))
		if si, isI := x.X.Type().Underlying().(*types.Interface); isI {
			if ai, isA := at.Underlying().(*types.Interface); isA && types.Implements(si, ai) {
				// the static interface type already guarantees the asserted methods
				ok = tNot(tEq(ref, "0"))
			}
		}
	} else {
		ok = tAnd(tNot(tEq(ref, "0")), tEq(sx("dyn", ref), tInt(int64(fe.tid(at)))))
	}
	var res Val
	if types.IsInterface(at) {
		res = RefV{ref}
	} else if pt, isPtr := at.Underlying().(*types.Pointer); isPtr {
		res = PtrV{Base: ref, Prefix: typeName(pt.Elem()), Pointee: pt.Elem()}
	} else {
		res = fe.freshVal(at, "unbox")
	}
	if x.CommaOk {
		okc := fe.fresh("ok", "Bool")
		fe.assume(tEq(okc, ok), "type assertion result")
		// v, ok := x.(T): when the assertion fails v is the zero value — for an interface or pointer T, nil
		switch r := res.(type) {
		case RefV:
			t := tIte(okc, r.T, "0")
			if fe.okRefs == nil {
				fe.okRefs = map[Term]bool{}
			}
			fe.okRefs[t] = true
			res = RefV{t}
		case PtrV:
			if r.Cell == nil {
				r.Base = tIte(okc, r.Base, "0")
				res = r
			}
		}
		return TupleV{E: []Val{res, BoolV{okc}}}
	}
	ord := fr.ords[x]
	fe.oblige(fr, ord+":holds", []string{"C09"}, st.pc, ok, x.Pos(), "unchecked type assertion to "+typeName(at))
	return res
}

func (fe *FnExec) doConvert(st *State, x *ssa.Convert) Val {
	v := fe.val(x.X)
	from, to := x.X.Type(), x.Type()
	fk, ok1 := intKindOf(from)
	tk, ok2 := intKindOf(to)
	if ok1 && ok2 {
		t := fe.intTerm(v)
		if fk == tk {
			return IntV{t}
		}
		// widening that preserves the value
		if (fk.signed == tk.signed && fk.bits <= tk.bits) || (!fk.signed && tk.signed && fk.bits < tk.bits) {
			return IntV{t}
		}
		if fk.bits == tk.bits && fk.bits >= 32 {
			return IntV{tk.wrap1(t)}
		}
		if fk.bits <= tk.bits && fk.bits >= 32 {
			return IntV{tk.wrap1(t)}
		}
		return IntV{tk.wrapm(t)}
	}
	if isString(to) {
		if sl, ok := v.(SliceV); ok {
			r := fe.fresh("str", "Int")
			fe.assume(tEq(sx("strlen", r), sl.Len), "string(bytes) length")
			fe.assume(tEq(sx(sym("bytes2str"), sl.Ref, sl.Len), r), "string(bytes) is a function of the bytes")
			fe.eng.noteUFun("bytes2str", 2)
			return StrV{r}
		}
		return fe.freshVal(to, "str")
	}
	if _, ok := to.Underlying().(*types.Slice); ok && isString(from) {
		if s, ok := v.(StrV); ok {
			r := fe.fresh("bytes", "Int")
			n := sx("strlen", s.T)
			fe.assume(sx("<", "0", r), "fresh slice")
			fe.assume(tEq(sx(sym("str2bytes"), s.T), r), "[]byte(s) is a function of s")
			fe.eng.noteUFun("str2bytes", 1)
			return SliceV{Ref: r, Len: n, Cap: n}
		}
	}
	return fe.freshVal(to, "conv")
}

func (fe *FnExec) doGo(fr *frame, st *State, x *ssa.Go) {
	fe.abstracted["go"]++
	cc := x.Common()
	site := fr.ords[x]
	if fv, ok := fe.val(cc.Value).(FuncV); ok {
		// the spawned literal runs concurrently: what it requires (e.g. a lock being held on its behalf)
		// must hold when it is spawned
		if con := fe.eng.contracts[fnKey(fv.Fn)]; con != nil {
			ctx := &EvalCtx{fe: fe, st: st, old: st, binds: map[string]Val{}, pkg: fe.pkg, conFile: con.File, lazyFn: fv.Fn}
			for i, b := range fv.Bind {
				if p, ok := b.(PtrV); ok && i < len(fv.Fn.FreeVars) {
					ctx.binds[fv.Fn.FreeVars[i].Name()] = fe.load(st, p)
				}
			}
			for _, rq := range con.Requires {
				g := ctx.evalBool(rq.X)
				fe.oblige(fr, fmt.Sprintf("%s.pre:%s", site, rq.Label), rq.Props, st.pc, g, x.Pos(), "required by the spawned goroutine: "+rq.Src)
			}
		}
		// the spawned function's effects on captured cells are arbitrary
		for _, b := range fv.Bind {
			if p, ok := b.(PtrV); ok && p.Cell != nil {
				if writtenFreeVarsHas(fv.Fn, p.Cell) {
					st.cells[p.Cell] = fe.freshVal(p.Cell.Type().(*types.Pointer).Elem(), "go")
				}
			}
		}
	}
	if fr.con != nil {
		for _, g := range fr.con.Ghosts {
			if ghostSiteMatches(g.After, site) {
				ctx := fe.ctxFor(fr, st)
				fe.assignLvalue(ctx, st, g.LHS, ctx.eval(g.RHS.E))
			}
		}
	}
}

func writtenFreeVarsHas(fn *ssa.Function, cell *ssa.Alloc) bool {
	// conservative: any captured variable the literal may assign to
	w := writtenFreeVars(fn)
	for fvv := range w {
		if fvv.Name() == cell.Comment {
			return true
		}
	}
	return false
}

func (fe *FnExec) runDefers(fr *frame, st *State) {
	for i := len(st.defers) - 1; i >= 0; i-- {
		d := st.defers[i]
		if d.guard == "false" {
			continue
		}
		if d.guard == "true" {
			fe.doCallWith(fr, st, d.instr, d.instr.Common(), nil, d.fn, d.args)
			continue
		}
		// conditional defer: run on a copy under guard, merge back
		a := st.clone()
		a.pc = tAnd(st.pc, d.guard)
		fe.doCallWith(fr, a, d.instr, d.instr.Common(), nil, d.fn, d.args)
		b := st.clone()
		b.pc = tAnd(st.pc, tNot(d.guard))
		m := fe.mergeStates(fr, fr.fn.Blocks[0], []*State{a, b})
		m.pc = st.pc
		m.defers = st.defers
		*st = *m
	}
	st.defers = nil
}

func (fe *FnExec) doReturn(fr *frame, st *State, x *ssa.Return) {
	var rv []Val
	for _, r := range x.Results {
		rv = append(rv, fe.val(r))
	}
	if !fr.inlined {
		fe.atReturn(fr, st, x, rv)
	}
	fr.rets = append(fr.rets, st.clone())
	fr.retVals = append(fr.retVals, rv)
	if !fr.inlined && (fr.con == nil || !fr.con.Trusted) {
		fe.errPropObligations(fr, st, x, rv)
	}
	if os.Getenv("GCV_FRAME") != "" {
		fe.frameObligations(fr, st, x)
	}
	if fr.con == nil || fr.inlined || fr.con.Trusted {
		return // a trusted contract is assumed by callers; only the safety obligations of its body are generated
	}
	for _, en := range append(append([]Clause(nil), fr.con.Ensures...), fr.con.Checks...) {
		ctx := fe.ctxFor(fr, st)
		ctx.old = fr.entry
		ctx.bindResults(fr.fn.Signature, rv)
		g := ctx.evalBool(en.X)
		nob := len(fe.script.Obs)
		fe.oblige(fr, fmt.Sprintf("post:%s@ret%d", en.Label, len(fr.rets)-1), en.Props, st.pc, g, x.Pos(), en.Src)
		if len(fe.script.Obs) == nob+1 && !strings.HasPrefix(fe.script.Obs[nob].Note, "CANNOT BE EVALUATED") {
			fe.script.Obs[nob].Clause = en.X
		}
		if len(fe.script.Obs) == nob+1 {
			fe.script.Obs[nob].Success = successReturn(fr.fn, x)
		}
	}
	for _, inv := range fr.con.CbInvs {
		ctx := fe.ctxFor(fr, st)
		ctx.old = fr.entry
		fe.oblige(fr, fmt.Sprintf("inv:%s:keep@ret%d", inv.Label, len(fr.rets)-1), inv.Props, st.pc, ctx.evalBool(inv.X), x.Pos(), inv.Src)
	}
}

func (fe *FnExec) bindLets(fr *frame, ctx *EvalCtx) {
	if fr.con == nil {
		return
	}
	for _, l := range fr.con.Lets {
		var cv ssa.Value
		if ci, ok := fr.callIdx[l.Call]; ok {
			cv = ci.(ssa.Value)
		} else if pv, ok := fr.pseudoVals[l.Call]; ok {
			cv = pv
		} else {
			continue // clauses using the name fail to evaluate and are reported individually
		}
		v, ok := fe.regs[cv]
		if !ok {
			v = fe.freshVal(cv.Type(), "let")
			fe.regs[cv] = v
		}
		if tv, ok := v.(TupleV); ok {
			for i, n := range l.Names {
				if i < len(tv.E) && n != "_" {
					ctx.binds[n] = tv.E[i]
				}
			}
		} else if len(l.Names) >= 1 {
			ctx.binds[l.Names[0]] = v
		}
	}
}

func callKeys(fr *frame) []string {
	var ks []string
	for k := range fr.callIdx {
		ks = append(ks, k)
	}
	return ks
}

// lookupAssumes: what a contract says about the values found in a map (a data-structure invariant established at
// the map updates, which carry the matching assertions).
func (fe *FnExec) lookupAssumes(fr *frame, st *State, x *ssa.Lookup, v Val) {
	if fr.con == nil {
		return
	}
	cs := fr.con.Calls[fr.ords[x]]
	if cs == nil {
		return
	}
	for _, a := range cs.Asserts {
		ctx := fe.ctxFor(fr, st)
		ctx.binds["arg0"], ctx.binds["key"], ctx.binds["value"] = fe.val(x.X), fe.val(x.Index), v
		g := ctx.evalBool(a.X)
		fe.oblige(fr, fmt.Sprintf("%s.assert:%s", fr.ords[x], a.Label), a.Props, st.pc, g, x.Pos(), a.Src)
	}
	for _, a := range cs.Assumes {
		ctx := fe.ctxFor(fr, st)
		ctx.binds["arg0"], ctx.binds["key"], ctx.binds["value"] = fe.val(x.X), fe.val(x.Index), v
		fe.assume(tImp(st.pc, ctx.evalBool(a.X)), "map invariant "+a.Label)
		fe.eng.noteSiteAssume(fr.name, fr.ords[x], a)
	}
}

// errPropObligations: the error-propagation family.  For every call of the function whose last result is an error,
// at every return of a function that itself returns an error: if that call was executed on this path and reported an
// error, the function reports an error.  Legitimate code handles some errors (io.EOF as a clean end, not-found as a
// verdict), so these obligations are not demanded: only those that hold on the tree the expectation lists were
// written from are expected (like every other obligation) — from then on a change that swallows the error fails.
func (fe *FnExec) errPropObligations(fr *frame, st *State, x *ssa.Return, rv []Val) {
	if fr != fe.top || fe.quiet || len(rv) == 0 || (fr.con != nil && fr.con.NoErrProp) {
		return
	}
	sig := fr.fn.Signature
	n := sig.Results().Len()
	errT := types.Universe.Lookup("error").Type()
	if n == 0 || !types.Identical(sig.Results().At(n-1).Type(), errT) {
		return
	}
	ret, ok := rv[n-1].(RefV)
	if !ok {
		return
	}
	var sites []string
	for site := range fr.callIdx {
		sites = append(sites, site)
	}
	sort.Strings(sites)
	for _, site := range sites {
		call, ok := fr.callIdx[site].(*ssa.Call)
		if !ok {
			continue
		}
		pcCall, executed := fe.callPC[call]
		if !executed {
			continue
		}
		rt := call.Type()
		var ev Val
		if tup, isT := rt.(*types.Tuple); isT {
			if tup.Len() == 0 || !types.Identical(tup.At(tup.Len()-1).Type(), errT) {
				continue
			}
			tv, ok := fe.regs[call].(TupleV)
			if !ok || len(tv.E) != tup.Len() {
				continue
			}
			ev = tv.E[tup.Len()-1]
		} else if types.Identical(rt, errT) {
			ev = fe.regs[call]
		} else {
			continue
		}
		e, ok := ev.(RefV)
		if !ok {
			continue
		}
		goal := tImp(tNot(tEq(e.T, "0")), tNot(tEq(ret.T, "0")))
		fe.oblige(fr, fmt.Sprintf("errprop[%s]@ret%d", site, len(fr.rets)-1), nil, tAnd(st.pc, pcCall), goal, x.Pos(),
			"an error reported by "+site+" on this path is reported by the function")
	}
}

// sharedStateObligation: package-level variables are state shared by every caller and every goroutine.  The library
// keeps none that it writes (sentinel errors, the pragma bytes and a sync.Pool are all there is), which is what lets
// per-object contracts and the lock discipline of C08 speak for concurrent use of different objects.  A function
// under contract that stores into a package-level variable, slices a package-level array, or hands the address of one
// to a callee gets an obligation that cannot be discharged: no contract names such state.  Values of package sync
// (Pool, Mutex, Once ...) are made to be shared and are exempt.
func (fe *FnExec) sharedStateObligation(fr *frame, st *State, addr ssa.Value, what string, pos token.Pos) {
	if fe.quiet || fr.inlined || fr.fn.Name() == "init" || strings.HasPrefix(fr.fn.Name(), "init#") {
		return // package initialisers are where package-level variables get their values
	}
	g := globalRoot(addr)
	if g == nil {
		return
	}
	if _, isPtr := addr.Type().Underlying().(*types.Pointer); !isPtr {
		return
	}
	t := g.Type().Underlying().(*types.Pointer).Elem()
	if n, ok := t.(*types.Named); ok && n.Obj().Pkg() != nil && n.Obj().Pkg().Path() == "sync" {
		return
	}
	fe.sharedN++
	fe.oblige(fr, fmt.Sprintf("shared[%d]", fe.sharedN-1), nil, st.pc, "false", pos,
		"a function under contract "+what+" the package-level variable "+g.Name()+": state shared by every caller and goroutine, named by no contract")
}

// globalRoot: the package-level variable an address is derived from (the variable itself, or a field / element of it).
func globalRoot(v ssa.Value) *ssa.Global {
	for i := 0; i < 8 && v != nil; i++ {
		switch x := v.(type) {
		case *ssa.Global:
			if x.Pkg != nil && x.Pkg.Pkg != nil && strings.HasPrefix(x.Pkg.Pkg.Path(), "github.com/ipld/go-car") {
				return x
			}
			return nil
		case *ssa.FieldAddr:
			v = x.X
		case *ssa.IndexAddr:
			v = x.X
		default:
			return nil
		}
	}
	return nil
}

// optFwdObligation: the option-forwarding family.  A function that takes variadic options and calls a function that
// takes variadic options of the same type hands its own options on: the callee's variadic argument is the slice the
// function was given.  Like the error-propagation family it is opt-in per member (only members that hold when the
// expectation lists are written are expected): some callers extend or replace the options on purpose.  From then on
// a change that drops the options, or adds one, at that call fails.
func (fe *FnExec) optFwdObligation(fr *frame, st *State, in ssa.Instruction, site string, cc *ssa.CallCommon, full []Val) {
	if fr != fe.top || fe.quiet || fr.inlined || site == "" || len(full) == 0 || (fr.con != nil && fr.con.Trusted) {
		return
	}
	csig := cc.Signature()
	fsig := fr.fn.Signature
	if csig == nil || !csig.Variadic() || !fsig.Variadic() || len(fr.fn.Params) == 0 {
		return
	}
	ct := csig.Params().At(csig.Params().Len() - 1).Type()
	ft := fsig.Params().At(fsig.Params().Len() - 1).Type()
	if !types.Identical(ct, ft) {
		return
	}
	if sl, ok := ft.Underlying().(*types.Slice); !ok {
		return
	} else if _, isFn := sl.Elem().Underlying().(*types.Signature); !isFn {
		return // only functional options (`...Option`), not `...interface{}` or `...string`
	}
	given, ok1 := fe.regs[fr.fn.Params[len(fr.fn.Params)-1]].(SliceV)
	passed, ok2 := full[len(full)-1].(SliceV)
	if !ok1 || !ok2 {
		return
	}
	goal := tAnd(tEq(passed.Ref, given.Ref), tEq(passed.Len, given.Len))
	fe.oblige(fr, "optfwd["+site+"]", nil, st.pc, goal, in.Pos(), "the options given to this function are the options handed to "+site)
}

// sendAsserts: channel contents are not modelled, but a contract may say what is sent: `call[send#k] assert l: e`
// over arg0 (the channel) and arg1 (the value).
func (fe *FnExec) sendAsserts(fr *frame, st *State, site string, ch, v Val, pos token.Pos) {
	if fr.con == nil || site == "" {
		return
	}
	cs := fr.con.Calls[site]
	if cs == nil {
		return
	}
	for _, a := range cs.Asserts {
		ctx := fe.ctxFor(fr, st)
		ctx.binds["arg0"], ctx.binds["arg1"] = ch, v
		g := ctx.evalBool(a.X)
		fe.oblige(fr, fmt.Sprintf("call[%s].assert:%s", site, a.Label), a.Props, st.pc, g, pos, a.Src)
	}
}

// errPropAtBackEdge: the loop member of the error-propagation family — a loop does not go on to its next iteration
// after a call in this iteration reported an error (same opt-in rule: only members that hold when the expectation
// list is written are expected).  Loops are cut at their heads, so an error swallowed inside a body would otherwise
// never meet a return on the same path.
func (fe *FnExec) errPropAtBackEdge(fr *frame, li *loopInfo, st *State) {
	if fr != fe.top || fe.quiet || fr.inlined || (fr.con != nil && (fr.con.Trusted || fr.con.NoErrProp)) {
		return
	}
	sig := fr.fn.Signature
	n := sig.Results().Len()
	errT := types.Universe.Lookup("error").Type()
	if n == 0 || !types.Identical(sig.Results().At(n-1).Type(), errT) {
		return
	}
	var sites []string
	for site := range fr.callIdx {
		sites = append(sites, site)
	}
	sort.Strings(sites)
	for _, site := range sites {
		call, ok := fr.callIdx[site].(*ssa.Call)
		if !ok || !li.body[call.Block()] {
			continue
		}
		pcCall, executed := fe.callPC[call]
		if !executed {
			continue
		}
		var ev Val
		rt := call.Type()
		if tup, isT := rt.(*types.Tuple); isT {
			if tup.Len() == 0 || !types.Identical(tup.At(tup.Len()-1).Type(), errT) {
				continue
			}
			tv, ok := fe.regs[call].(TupleV)
			if !ok || len(tv.E) != tup.Len() {
				continue
			}
			ev = tv.E[tup.Len()-1]
		} else if types.Identical(rt, errT) {
			ev = fe.regs[call]
		} else {
			continue
		}
		e, ok := ev.(RefV)
		if !ok {
			continue
		}
		fe.oblige(fr, fmt.Sprintf("errprop[%s]@%s", site, fe.loopName(li)), nil, tAnd(st.pc, pcCall), tEq(e.T, "0"), li.head.Instrs[0].Pos(),
			"the loop does not go on to its next iteration after "+site+" reported an error")
	}
}

// ---------------------------------------------------------------------------
// Frame soundness (DESIGN.md §3.2): callers havoc exactly what a callee's `modifies` names, so a callee must not
// change anything else that existed before the call.  At every return of a function under contract, for every field
// map / ghost map whose final value differs from the entry value:
//     forall o. o existed at entry && o is not a declared target of that map  ==>  final[o] == entry[o]
// Objects allocated during the call are the function's own; the scratch ghosts of contracts (mark, mark2) are exempt.

type modTarget struct {
	prefix string
	key    Term
	whole  bool
}

func (fe *FnExec) modTargets(ctx *EvalCtx, x *CExpr) []modTarget {
	e := x.E
	if p, ok := e.(*ast.ParenExpr); ok {
		e = p.X
	}
	switch l := e.(type) {
	case *ast.CallExpr:
		if id, ok := l.Fun.(*ast.Ident); ok {
			if g, ok := fe.eng.voc.Ghost[id.Name]; ok {
				return []modTarget{{prefix: "ghost." + g.Name, key: ctx.ghostKey(g, l.Args)}}
			}
			if id.Name == "all" && len(l.Args) == 1 {
				if gi, ok := l.Args[0].(*ast.Ident); ok {
					return []modTarget{{prefix: "ghost." + gi.Name, whole: true}}
				}
			}
		}
	case *ast.StarExpr:
		v := ctx.eval(l.X)
		if rv, ok := v.(RefV); ok {
			if t, ok := fe.ifaceType[rv.T]; ok {
				v = PtrV{Base: rv.T, Prefix: typeName(t), Pointee: t}
			}
		}
		if p, ok := v.(PtrV); ok && p.Cell == nil {
			return []modTarget{{prefix: p.Prefix, key: p.Base}}
		}
	case *ast.SelectorExpr:
		ctx2 := *ctx
		ctx2.wantAddr = true
		base := ctx2.eval(l.X)
		if b, ok := base.(PtrV); ok && b.Cell == nil {
			if stt, ok := b.Pointee.Underlying().(*types.Struct); ok {
				_, path := findField(stt, l.Sel.Name)
				if path != nil {
					prefix := b.Prefix
					cur := stt
					for _, fi := range path {
						f := cur.Field(fi)
						prefix += "." + f.Name()
						if s2, ok := f.Type().Underlying().(*types.Struct); ok {
							cur = s2
						}
					}
					return []modTarget{{prefix: prefix, key: b.Base}}
				}
			}
		}
	}
	return nil
}

func (fe *FnExec) frameObligations(fr *frame, st *State, x *ssa.Return) {
	if fr != fe.top || fe.quiet || fr.inlined || fr.con == nil || fr.con.Trusted {
		return
	}
	ctx := fe.ctxFor(fr, fr.entry)
	saved, nw := fe.clauseErr, len(fe.warns)
	var ts []modTarget
	for _, m := range fr.con.Modifies {
		ts = append(ts, fe.modTargets(ctx, m)...)
	}
	fe.clauseErr, fe.warns = saved, fe.warns[:nw]
	for _, h := range sortedKeys(st.heap) {
		t := st.heap[h]
		e := Term(sym(h + "@0"))
		if t == e || h == "ghost.mark" || h == "ghost.mark2" {
			continue
		}
		whole := false
		var conds []Term
		for _, tg := range ts {
			if h == tg.prefix || strings.HasPrefix(h, tg.prefix+".") {
				if tg.whole {
					whole = true
				} else {
					conds = append(conds, tNot(tEq("o", tg.key)))
				}
			}
		}
		if whole {
			continue
		}
		objKeyed := true
		if strings.HasPrefix(h, "ghost.") {
			if g, ok := fe.eng.voc.Ghost[strings.TrimPrefix(h, "ghost.")]; ok && g.Key != "" {
				objKeyed = false
			}
		}
		if objKeyed {
			conds = append(conds, sx("<", "0", "o"), sx("<=", "o", "HW"))
		}
		goal := Term(fmt.Sprintf("(forall ((o Int)) (=> %s (= (select %s o) (select %s o))))", tAnd(conds...), t, e))
		fe.oblige(fr, fmt.Sprintf("frame:modifies[%s]@ret%d", h, len(fr.rets)-1), nil, st.pc, goal, x.Pos(),
			"nothing that existed at entry is changed in "+h+" except what `modifies` names")
	}
}

// successReturn: the return statement hands back the constant nil as its error (or the function has no error result).
func successReturn(fn *ssa.Function, x *ssa.Return) bool {
	sig := fn.Signature
	n := sig.Results().Len()
	if n == 0 || !types.Identical(sig.Results().At(n-1).Type(), types.Universe.Lookup("error").Type()) {
		return true
	}
	if n != len(x.Results) {
		return false
	}
	c, ok := x.Results[n-1].(*ssa.Const)
	return ok && c.Value == nil
}
