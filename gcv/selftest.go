package main

// Must-fail corpus (vacuity guard for the generator itself): small source rewrites of /repo applied in memory
// through the package loader's overlay — nothing is written under /repo — each with the obligation(s) it must
// break.  `gcv selftest [--property Cxx]` runs them; the thorough tier of a check runs the mutants of its property.

import (
	"encoding/json"
	"flag"
	"fmt"
	"os"
	"path/filepath"
	"sort"
	"strings"
	"sync"
)

type Mutant struct {
	Name     string      `json:"name"`
	Property string      `json:"property"`
	File     string      `json:"file"` // relative to /repo
	Rewrites [][2]string `json:"rewrites"`
	MustFail []string    `json:"must_fail"` // substrings of obligation names; at least one must fail
	Note     string      `json:"note,omitempty"`
}

func loadMutants() ([]Mutant, error) {
	files, _ := filepath.Glob(filepath.Join(verifRoot, "selftest", "*.json"))
	sort.Strings(files)
	var out []Mutant
	for _, f := range files {
		data, err := os.ReadFile(f)
		if err != nil {
			return nil, err
		}
		var ms []Mutant
		if err := json.Unmarshal(data, &ms); err != nil {
			return nil, fmt.Errorf("%s: %v", f, err)
		}
		out = append(out, ms...)
	}
	return out, nil
}

type mutantResult struct {
	M       Mutant
	Status  string // detected | MISSED | stale | error
	Failing []string
	Detail  string
}

func runMutant(m Mutant) mutantResult {
	res := mutantResult{M: m}
	path := filepath.Join(repoRoot, m.File)
	data, err := os.ReadFile(path)
	if err != nil {
		res.Status, res.Detail = "error", err.Error()
		return res
	}
	src := string(data)
	for _, rw := range m.Rewrites {
		if strings.Count(src, rw[0]) != 1 {
			res.Status = "stale"
			res.Detail = fmt.Sprintf("rewrite source occurs %d times in %s: %q", strings.Count(src, rw[0]), m.File, rw[0])
			return res
		}
		src = strings.Replace(src, rw[0], rw[1], 1)
	}
	spec, err := loadSpec(m.Property)
	if err != nil {
		res.Status, res.Detail = "error", err.Error()
		return res
	}
	// only the units of the module the mutated file belongs to need re-verification, but keep the whole check
	cr, err := runCheck(spec, 10, 0, false, map[string][]byte{path: []byte(src)})
	if err != nil {
		res.Status, res.Detail = "error", "mutant does not load: "+err.Error()
		return res
	}
	have := map[string]bool{}
	expectSet := map[string]bool{}
	for _, n := range spec.Expect {
		expectSet[n] = true
	}
	for _, a := range cr.aggs {
		have[a.Name] = true
		if isErrProp(a.Name) && !expectSet[a.Name] {
			continue
		}
		if a.Status != "proved" {
			res.Failing = append(res.Failing, a.Name)
		} else if a.deadSuccessParts() > 0 {
			res.Failing = append(res.Failing, a.Name+" (success return unreachable)")
		} else if a.vacuousParts() > spec.Vacuous[a.Name] {
			res.Failing = append(res.Failing, a.Name+" (became vacuous)")
		}
	}
	for _, name := range spec.Expect {
		if !have[name] {
			res.Failing = append(res.Failing, name+" (vanished)")
		}
	}
	for _, e := range cr.errs {
		res.Failing = append(res.Failing, "error: "+e)
	}
	res.Status = "MISSED"
	for _, f := range res.Failing {
		for _, pat := range m.MustFail {
			if strings.Contains(f, pat) {
				res.Status = "detected"
			}
		}
	}
	if res.Status == "MISSED" && len(res.Failing) > 0 {
		res.Detail = "other obligations failed: " + strings.Join(res.Failing, ", ")
	}
	return res
}

func runSelftest(prop string, verbose bool) (total, missed int, lines []string) {
	ms, err := loadMutants()
	if err != nil {
		return 0, 1, []string{"cannot read the must-fail corpus: " + err.Error()}
	}
	var sel []Mutant
	for _, m := range ms {
		if prop == "" || m.Property == prop {
			sel = append(sel, m)
		}
	}
	results := make([]mutantResult, len(sel))
	var wg sync.WaitGroup
	sem := make(chan struct{}, 4)
	for i, m := range sel {
		i, m := i, m
		wg.Add(1)
		sem <- struct{}{}
		go func() {
			defer wg.Done()
			defer func() { <-sem }()
			results[i] = runMutant(m)
		}()
	}
	wg.Wait()
	for _, r := range results {
		total++
		if r.Status != "detected" {
			missed++
		}
		if verbose || r.Status != "detected" {
			ln := fmt.Sprintf("%-9s %s %-40s", r.Status, r.M.Property, r.M.Name)
			if r.Status == "detected" {
				ln += " -> " + strings.Join(firstN(r.Failing, 3), ", ")
			} else {
				ln += " " + r.Detail
			}
			lines = append(lines, ln)
		}
	}
	return
}

func firstN(s []string, n int) []string {
	if len(s) > n {
		return s[:n]
	}
	return s
}

func cmdSelftest(args []string) int {
	fs := flag.NewFlagSet("selftest", flag.ExitOnError)
	prop := fs.String("property", "", "only the mutants of this property")
	quiet := fs.Bool("q", false, "print only mutants that are not detected")
	fs.Parse(args)
	total, missed, lines := runSelftest(*prop, !*quiet)
	for _, l := range lines {
		fmt.Println(l)
	}
	fmt.Printf("must-fail corpus: %d mutants, %d not detected\n", total, missed)
	if missed > 0 {
		return 1
	}
	return 0
}
