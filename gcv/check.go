package main

import (
	"context"
	"os/exec"
	"encoding/json"
	"flag"
	"fmt"
	"os"
	"path/filepath"
	"regexp"
	"sort"
	"strconv"
	"strings"
	"sync"
	"time"
)

// A property check is described by /verif/checks/<id>.json.
type Unit struct {
	Mod    string   `json:"mod"`
	Func   string   `json:"func"`
	Only   []string `json:"only,omitempty"`   // label prefixes that carry this property (in addition to tags)
	Safety bool     `json:"safety,omitempty"` // include the generated safety obligations (bounds, alloc, div, panic, assertions)
}

type CheckSpec struct {
	Property string   `json:"property"`
	Units    []Unit   `json:"units"`
	Lemmas   []string `json:"lemmas,omitempty"`
	Expect   []string `json:"expect"`
	Vacuous  map[string]int `json:"vacuous,omitempty"` // obligation -> number of its sub-goals whose path condition is unreachable on the committed tree (dead cases / dead code by construction)
	Bounded  []string `json:"bounded,omitempty"`
	Notes    []string `json:"notes,omitempty"`
}

type KnownFinding struct {
	Property   string `json:"property"`
	Obligation string `json:"obligation"`
	Status     string `json:"status"` // known | fixed
	Commit     string `json:"commit,omitempty"`
	What       string `json:"what"`
}

type AggOb struct {
	Name   string
	Func   string
	Status string
	Solver string
	TimeMS int64
	Parts  []*Obligation
	Src    string
	Where  string
}

// vacuousParts: the number of sub-goals whose path condition contradicts the assumptions in force (those sub-goals
// hold for no execution, whatever their goal says).
func (a *AggOb) vacuousParts() int {
	n := 0
	for _, p := range a.Parts {
		if p.Reach == "unsat" {
			n++
		}
	}
	return n
}

// deadSuccessParts: post-conditions generated at a return that reports success (error result nil) and that no
// execution reaches under the contracts in force — never a dead error branch, always contradictory contracts.
func (a *AggOb) deadSuccessParts() int {
	n := 0
	for _, p := range a.Parts {
		if p.Reach == "unsat" && p.Success && strings.HasPrefix(p.Label, "post:") {
			n++
		}
	}
	return n
}

var reRet = regexp.MustCompile(`@ret\d+`)

func aggName(n string) string { return reRet.ReplaceAllString(n, "") }

var mutSample string // thorough tier: summary line of the sampled mutation sweep of this property (evidence)

var expectMode bool // gcv expect: keep every generated obligation while the list is being written

// isErrProp: the opt-in generated families (error propagation, option forwarding): a member counts only where the
// expectation list has it.
func isErrProp(name string) bool {
	return strings.Contains(name, "#errprop[") || strings.Contains(name, "#optfwd[")
}

func isSafetyLabel(l string) bool {
	for _, p := range []string{"alloc[", "bounds[", "div[", "panic[", "assert[", "strindex", "nilcall["} {
		if strings.HasPrefix(l, p) {
			return true
		}
	}
	return false
}

func hasProp(ps []string, id string) bool {
	for _, p := range ps {
		if p == id {
			return true
		}
	}
	return false
}

// selectObs picks the obligations of r that carry property id.
func selectObs(r *FuncResult, u Unit, id string) []*Obligation {
	var out []*Obligation
	for _, o := range r.Obs {
		if isSafetyLabel(o.Label) {
			if u.Safety || id == "C09" {
				out = append(out, o)
			}
			continue
		}
		if len(o.Props) == 0 || hasProp(o.Props, id) {
			out = append(out, o)
			continue
		}
		for _, p := range u.Only {
			if strings.HasPrefix(o.Label, p) {
				out = append(out, o)
				break
			}
		}
	}
	return out
}

func aggregate(obs []*Obligation) []*AggOb {
	m := map[string]*AggOb{}
	var order []string
	for _, o := range obs {
		n := aggName(o.Name)
		a := m[n]
		if a == nil {
			a = &AggOb{Name: n, Func: o.Func, Status: "proved", Src: o.Note, Where: o.Where}
			m[n] = a
			order = append(order, n)
		}
		a.Parts = append(a.Parts, o)
		a.TimeMS += o.TimeMS
		if a.Solver == "" {
			a.Solver = o.Solver
		}
		switch o.Status {
		case "proved":
		case "failed":
			a.Status = "failed"
		default:
			if a.Status != "failed" {
				a.Status = "unknown"
			}
		}
	}
	var out []*AggOb
	for _, n := range order {
		out = append(out, m[n])
	}
	return out
}

type checkRun struct {
	spec                  *CheckSpec
	results               []*FuncResult
	aggs                  []*AggOb
	errs                  []string
	engines               map[string]*Engine
	loadMS                int64
	wall                  time.Duration
	trusted               map[string]bool
	unknown               map[string]int
	abstr                 map[string]int
	assumes               []string
	selfTotal, selfMissed int
}

var engineCache = map[string]*Engine{}
var engineMu sync.Mutex

func getEngine(mod string, overlay map[string][]byte) (*Engine, error) {
	engineMu.Lock()
	defer engineMu.Unlock()
	if overlay == nil {
		if e, ok := engineCache[mod]; ok {
			return e, nil
		}
	}
	dir := repoRoot
	if mod != "." && mod != "" {
		dir = filepath.Join(repoRoot, mod)
	}
	e, err := loadEngine(dir, overlay)
	if err != nil {
		return nil, err
	}
	if overlay == nil {
		engineCache[mod] = e
	}
	return e, nil
}

func loadSpec(id string) (*CheckSpec, error) {
	data, err := os.ReadFile(filepath.Join(verifRoot, "checks", id+".json"))
	if err != nil {
		return nil, err
	}
	var s CheckSpec
	if err := json.Unmarshal(data, &s); err != nil {
		return nil, err
	}
	return &s, nil
}

func runCheck(spec *CheckSpec, timeoutS, seed int, allSolvers bool, overlay map[string][]byte) (*checkRun, error) {
	cr := &checkRun{spec: spec, engines: map[string]*Engine{}, trusted: map[string]bool{}, unknown: map[string]int{}, abstr: map[string]int{}}
	t0 := time.Now()
	mods := map[string]bool{}
	for _, u := range spec.Units {
		mods[u.Mod] = true
	}
	var wg sync.WaitGroup
	var mu sync.Mutex
	var loadErr error
	for m := range mods {
		m := m
		wg.Add(1)
		go func() {
			defer wg.Done()
			e, err := getEngineNoLock(m, overlay)
			mu.Lock()
			defer mu.Unlock()
			if err != nil {
				loadErr = fmt.Errorf("module %s: %v", m, err)
				return
			}
			cr.engines[m] = e
		}()
	}
	wg.Wait()
	if loadErr != nil {
		return nil, loadErr
	}
	cr.loadMS = time.Since(t0).Milliseconds()
	cr.results = make([]*FuncResult, len(spec.Units))
	sem := make(chan struct{}, 12)
	for i, u := range spec.Units {
		i, u := i, u
		wg.Add(1)
		sem <- struct{}{}
		go func() {
			defer wg.Done()
			defer func() { <-sem }()
			defer func() {
				if r := recover(); r != nil {
					mu.Lock()
					cr.results[i] = &FuncResult{Key: u.Func, Name: displayName(u.Func), Errs: []string{fmt.Sprintf("engine panic: %v", r)}}
					mu.Unlock()
				}
			}()
			e := cr.engines[u.Mod]
			r := e.verifyFunc(u.Func, timeoutS, seed, allSolvers, true)
			mu.Lock()
			cr.results[i] = r
			mu.Unlock()
		}()
	}
	wg.Wait()
	var sel []*Obligation
	for i, r := range cr.results {
		u := spec.Units[i]
		for _, e := range r.Errs {
			cr.errs = append(cr.errs, r.Name+": "+e)
		}
		sel = append(sel, selectObs(r, u, spec.Property)...)
		for k := range r.Used {
			cr.trusted[k] = true
		}
		for k, n := range r.Unknown {
			cr.unknown[k] += n
		}
		for k, n := range r.Abstracted {
			cr.abstr[k] += n
		}
		cr.assumes = append(cr.assumes, r.Assumes...)
	}
	cr.aggs = aggregate(sel)
	if !expectMode {
		// the error-propagation family counts only where the expectation list has it (see errPropObligations)
		exp := map[string]bool{}
		for _, n := range spec.Expect {
			exp[n] = true
		}
		var kept []*AggOb
		for _, a := range cr.aggs {
			if isErrProp(a.Name) && !exp[a.Name] {
				continue
			}
			kept = append(kept, a)
		}
		cr.aggs = kept
	}
	cr.wall = time.Since(t0)
	return cr, nil
}

func getEngineNoLock(mod string, overlay map[string][]byte) (*Engine, error) {
	return getEngine(mod, overlay)
}

func loadKnown() []KnownFinding {
	data, err := os.ReadFile(filepath.Join(verifRoot, "known_findings.json"))
	if err != nil {
		return nil
	}
	var k struct {
		Findings []KnownFinding `json:"findings"`
	}
	json.Unmarshal(data, &k)
	return k.Findings
}

func cmdCheck(args []string) int {
	fs := flag.NewFlagSet("check", flag.ExitOnError)
	prop := fs.String("property", "", "property id")
	tier := fs.String("tier", "", "quick | thorough")
	fs.Parse(args)
	if *tier == "" {
		*tier = os.Getenv("VERIF_TIER")
	}
	if *tier == "" {
		*tier = "quick"
	}
	seed := 0
	if s := os.Getenv("VERIF_SEED"); s != "" {
		seed, _ = strconv.Atoi(s)
	}
	spec, err := loadSpec(*prop)
	if err != nil {
		fmt.Fprintln(os.Stderr, "cannot read check spec:", err)
		return 2
	}
	timeout := 10
	all := false
	if *tier == "thorough" {
		timeout = 60
		all = true
	}
	t0 := time.Now()
	cr, err := runCheck(spec, timeout, seed, all, nil)
	if err != nil {
		fmt.Fprintln(os.Stderr, "ERROR (not a property verdict): the repository could not be loaded:", err)
		return 2
	}
	violations := 0
	known := loadKnown()
	isKnown := func(name string) *KnownFinding {
		for i := range known {
			if known[i].Property == spec.Property && known[i].Obligation == name && known[i].Status == "known" {
				return &known[i]
			}
		}
		return nil
	}
	have := map[string]*AggOb{}
	for _, a := range cr.aggs {
		have[a.Name] = a
	}
	replayDir := filepath.Join(verifRoot, "replays", "out", spec.Property)
	if d := os.Getenv("GCV_REPLAY_OUT"); d != "" {
		replayDir = filepath.Join(d, spec.Property) // seed trials and development runs keep their replay files apart
	}
	os.RemoveAll(replayDir)
	report := func(name, why string, a *AggOb) {
		if kf := isKnown(name); kf != nil {
			fmt.Printf("KNOWN-FINDING: property=%s %s — %s\n", spec.Property, name, kf.What)
			return
		}
		violations++
		os.MkdirAll(replayDir, 0o755)
		path := filepath.Join(replayDir, sanitize(name)+".json")
		rp := map[string]interface{}{"property": spec.Property, "obligation": name, "reason": why}
		suffix := " no-failing-input-found"
		if a != nil {
			var parts []map[string]interface{}
			for _, p := range a.Parts {
				if p.Status != "proved" {
					parts = append(parts, map[string]interface{}{"name": p.Name, "status": p.Status, "where": p.Where, "clause": p.Note, "solver_output": p.Output, "model": filterModel(p.Model)})
				}
			}
			rp["failed_parts"] = parts
			rp["clause"] = a.Src
			if ok, info := tryReplay(cr, a, path); ok {
				suffix = ""
				rp["replay"] = info
			} else if info != "" {
				rp["replay_attempt"] = info
			}
		}
		data, _ := json.MarshalIndent(rp, "", " ")
		os.WriteFile(path, data, 0o644)
		fmt.Printf("VIOLATION property=%s replay=%s obligation=%s (%s)%s\n", spec.Property, path, name, why, suffix)
	}
	for _, name := range spec.Expect {
		a := have[name]
		if a == nil {
			report(name, "expected obligation is no longer generated: the function, loop, call site or clause it is keyed to has changed", nil)
			continue
		}
	}
	discharged := 0
	total := 0
	var knownSeen []string
	expectSet := map[string]bool{}
	for _, n := range spec.Expect {
		expectSet[n] = true
	}
	for _, a := range cr.aggs {
		if isErrProp(a.Name) && !expectSet[a.Name] {
			continue // an error this function handled on purpose when the expectation list was written
		}
		if isKnown(a.Name) != nil {
			if a.Status != "proved" {
				report(a.Name, "", a)
				knownSeen = append(knownSeen, a.Name)
			} else {
				fmt.Printf("NOTE: known finding %s is now discharged; update known_findings.json\n", a.Name)
			}
			continue
		}
		total++
		if a.deadSuccessParts() > 0 {
			report(a.Name, fmt.Sprintf("a success return is unreachable under the contracts in force (%d path(s)): the contracts of this function and its callees contradict each other", a.deadSuccessParts()), a)
			continue
		}
		if a.Status == "proved" && a.vacuousParts() > spec.Vacuous[a.Name] {
			// reachability (cover) check: an obligation that was reachable when the expectation list was written and is
			// discharged now only because no execution reaches it any more is not a proof
			report(a.Name, fmt.Sprintf("obligation has become vacuous on %d more path(s): no execution reaches it there under the current contracts and code", a.vacuousParts()-spec.Vacuous[a.Name]), a)
			continue
		}
		switch a.Status {
		case "proved":
			discharged++
		case "failed":
			unevaluable, first := true, ""
			for _, p := range a.Parts {
				if p.Status == "proved" {
					continue
				}
				if strings.HasPrefix(p.Note, "CANNOT BE EVALUATED") {
					if first == "" {
						first = strings.TrimPrefix(p.Note, "CANNOT BE EVALUATED: ")
						if i := strings.Index(first, " | "); i > 0 {
							first = first[:i]
						}
					}
				} else {
					unevaluable = false
				}
			}
			if strings.Contains(a.Name, "#shared[") {
				report(a.Name, "the function writes, or hands out for writing, a package-level variable — state shared by every caller and goroutine that no contract names ("+a.Src+")", a)
			} else if unevaluable && first != "" {
				// not a refutation: the clause names a local, field or call site the current code no longer has
				report(a.Name, "contract no longer applies to the code — the clause cannot be evaluated ("+first+"): undecided until the contract is updated with the code", a)
			} else {
				report(a.Name, "obligation refuted by the solver", a)
			}
		default:
			report(a.Name, "obligation not discharged ("+a.Status+")", a)
		}
	}
	for _, e := range cr.errs {
		violations++
		os.MkdirAll(replayDir, 0o755)
		path := filepath.Join(replayDir, fmt.Sprintf("error-%d.json", violations))
		data, _ := json.MarshalIndent(map[string]interface{}{"property": spec.Property, "error": e}, "", " ")
		os.WriteFile(path, data, 0o644)
		fmt.Printf("VIOLATION property=%s replay=%s contract no longer applies to the code: %s no-failing-input-found\n", spec.Property, path, e)
	}
	selfTotal, selfMissed := 0, 0
	if *tier == "thorough" {
		var lines []string
		selfTotal, selfMissed, lines = runSelftest(spec.Property, false)
		for _, l := range lines {
			fmt.Println("SELFTEST:", l)
		}
		fmt.Printf("must-fail corpus for %s: %d mutants, %d not detected\n", spec.Property, selfTotal, selfMissed)
		mutSample = mutationSample(spec.Property, seed)
		if mutSample != "" {
			fmt.Println("mutation sample:", mutSample)
		}
	}
	cr.selfTotal, cr.selfMissed = selfTotal, selfMissed
	writeEvidence(cr, *tier, seed, total, discharged, violations, knownSeen, time.Since(t0))
	fmt.Printf("property %s: %d obligations, %d discharged, %d known findings, %d violations, %.1fs\n", spec.Property, total, discharged, len(knownSeen), violations, time.Since(t0).Seconds())
	if violations > 0 {
		return 1
	}
	if selfMissed > 0 {
		fmt.Fprintln(os.Stderr, "ERROR (not a property verdict): the must-fail corpus has mutants this check does not detect")
		return 2
	}
	return 0
}

func sanitize(s string) string {
	return strings.NewReplacer("/", "_", "(", "", ")", "", "*", "", "#", "-", ":", "-", "[", "", "]", "", " ", "").Replace(s)
}

func writeEvidence(cr *checkRun, tier string, seed int, total, discharged, violations int, known []string, wall time.Duration) {
	var samples []map[string]interface{}
	for i, a := range cr.aggs {
		if i%maxInt(1, len(cr.aggs)/12) == 0 || a.Status != "proved" {
			samples = append(samples, map[string]interface{}{"obligation": a.Name, "clause": a.Src, "status": a.Status, "back_end": a.Solver, "time_ms": a.TimeMS, "sub_goals": len(a.Parts)})
		}
	}
	var funcs []map[string]interface{}
	var solveMS, genMS int64
	subgoals := 0
	autoFns := 0
	regDrivers := 0
	for name := range loadReplayIndex() {
		for _, a := range cr.aggs {
			if a.Name == name {
				regDrivers++
			}
		}
	}
	for _, r := range cr.results {
		fm := map[string]interface{}{"function": r.Name, "sub_goals": len(r.Obs), "blocks_reached": r.Blocks, "blocks": r.BlocksAll, "vacuity_guard": r.Vacuity, "solve_ms": r.SolveMS}
		if r.Auto != nil {
			fm["replay"] = "value function: a refuted post-condition is replayed on the real code by a generated driver"
			autoFns++
		}
		funcs = append(funcs, fm)
		solveMS += r.SolveMS
		genMS += r.GenMS
		subgoals += len(r.Obs)
	}
	var trusted, verifiedCallees []string
	for k := range cr.trusted {
		assumed := true
		for _, e := range cr.engines {
			if c := e.contracts[k]; c != nil {
				assumed = c.Trusted
				break
			}
		}
		if assumed {
			trusted = append(trusted, "assumed contract: "+displayName(k))
		} else {
			verifiedCallees = append(verifiedCallees, displayName(k))
		}
	}
	sort.Strings(trusted)
	sort.Strings(verifiedCallees)
	var siteAssumes []string
	for _, e := range cr.engines {
		e.mu.Lock()
		for k, v := range e.siteAssumes {
			siteAssumes = append(siteAssumes, "site assumption "+k+": "+v)
		}
		e.mu.Unlock()
	}
	sort.Strings(siteAssumes)
	trusted = append(trusted, "the VC generator gcv itself (guarded by the must-fail corpus /verif/selftest)", "go/ssa lowering of Go (x/tools v0.29.0), int = 64 bit, slice lengths <= 2^48", "z3 5.1.0 / cvc5 1.0 / z3 4.8.12")
	var unk []string
	for k, n := range cr.unknown {
		unk = append(unk, fmt.Sprintf("%s (%d call sites): results arbitrary, assumed effect-free on tracked state except through its arguments", displayName(k), n))
	}
	sort.Strings(unk)
	assumptions := append([]string{}, cr.assumes...)
	assumptions = append(assumptions, "machine integers are modelled exactly (mathematical Int with explicit wrap-around); stream offsets assumed < 2^62")
	assumptions = append(assumptions, "frames: callers havoc exactly what a callee's `modifies` names; that a callee body changes nothing else is not proved in general (the experimental obligation GCV_FRAME=1 is too noisy through unknown callees and re-established reader invariants) — guarded by the rule that no success return may be unreachable under the contracts in force, and by a lint over the contract files (DESIGN.md §10)")
	assumptions = append(assumptions, "generated families error-propagation (errprop[..]) and option-forwarding (optfwd[..]) are opt-in per member: only members that held when the expectation list was written are obligations of this check; the others are code that handles an error, or changes its options, on purpose")
	usesCmd := false
	for _, u := range cr.spec.Units {
		if u.Mod == "cmd" {
			usesCmd = true
		}
	}
	if usesCmd {
		assumptions = append(assumptions, "units of module cmd are verified against github.com/ipld/go-car/v2 v2.14.2 from the module cache (cmd/go.mod has no replace directive): every v2 callee is an uncontracted external call there (results arbitrary)")
	}
	assumptions = append(assumptions, siteAssumes...)
	assumptions = append(assumptions, unk...)
	for _, n := range cr.spec.Notes {
		assumptions = append(assumptions, n)
	}
	ev := map[string]interface{}{
		"property_id": cr.spec.Property,
		"tier":        tier,
		"seed":        seed,
		"level":       "proof",
		"coverage": map[string]interface{}{
			"obligations":              total,
			"discharged":               discharged,
			"sub_goals":                subgoals,
			"checker_cmd":              fmt.Sprintf("/verif/bin/gcv check --property %s --tier %s", cr.spec.Property, tier),
			"trusted_base":             trusted,
			"samples":                  samples,
			"functions_under_contract": funcs,
			"known_findings_met":       known,
			"abstracted_instructions":  cr.abstr,
			"bounded_stand_ins":        cr.spec.Bounded,
			"mutation_sample":          mutSample,
			"replay_drivers":           map[string]int{"registered_for_obligations_of_this_check": regDrivers, "functions_with_generated_driver": autoFns},
			"solver_ms":                solveMS,
			"vcgen_ms":                 genMS,
			"load_ms":                  cr.loadMS,
			"back_ends":                []string{"z3-5.1.0 (first)", "cvc5-1.0", "z3-4.8.12"},
		},
		"assumptions": assumptions,
		"wall_s":      wall.Seconds(),
		"violations":  violations,
	}
	evDir := filepath.Join(verifRoot, "evidence")
	if d := os.Getenv("GCV_EVIDENCE_DIR"); d != "" {
		evDir = d // trial runs on a deliberately changed tree (seeds) must not overwrite the evidence of the real tree
	}
	os.MkdirAll(evDir, 0o755)
	data, _ := json.MarshalIndent(ev, "", " ")
	os.WriteFile(filepath.Join(evDir, cr.spec.Property+".json"), data, 0o644)
}

func maxInt(a, b int) int {
	if a > b {
		return a
	}
	return b
}

// expect: regenerate the expectation list of a check from the current tree.
func cmdExpect(args []string) int {
	fs := flag.NewFlagSet("expect", flag.ExitOnError)
	prop := fs.String("property", "", "property id")
	fs.Parse(args)
	spec, err := loadSpec(*prop)
	if err != nil {
		fmt.Fprintln(os.Stderr, err)
		return 2
	}
	expectMode = true
	cr, err := runCheck(spec, 10, 0, false, nil)
	if err != nil {
		fmt.Fprintln(os.Stderr, err)
		return 2
	}
	var names []string
	for _, a := range cr.aggs {
		if isErrProp(a.Name) && a.Status != "proved" {
			// the error-propagation family is not demanded: an error the code handles on purpose (io.EOF as a clean
			// end, not-found as a verdict) is simply not on the list
			fmt.Printf("  handled  %s\n", a.Name)
			continue
		}
		names = append(names, a.Name)
		if a.Status != "proved" {
			fmt.Printf("  %-8s %s\n", a.Status, a.Name)
		}
	}
	for _, e := range cr.errs {
		fmt.Println("  ERROR", e)
	}
	spec.Expect = names
	spec.Vacuous = map[string]int{}
	for _, a := range cr.aggs {
		if n := a.vacuousParts(); n > 0 {
			spec.Vacuous[a.Name] = n
		}
	}
	// names of locals and parameters the contracts of these units use, with their position-based descriptors
	lpath := filepath.Join(verifRoot, "checks", "locals", "hints.json")
	hints := map[string]map[string]localHint{}
	if old, err := os.ReadFile(lpath); err == nil {
		json.Unmarshal(old, &hints)
	}
	for _, e := range cr.engines {
		e.localMu.Lock()
		for fn, m := range e.localsUsed {
			hints[fn] = m // the function's whole entry is replaced: stale names disappear
		}
		e.localMu.Unlock()
	}
	os.MkdirAll(filepath.Dir(lpath), 0o755)
	if ld, err := json.MarshalIndent(hints, "", " "); err == nil {
		os.WriteFile(lpath, append(ld, '\n'), 0o644)
	}
	data, _ := json.MarshalIndent(spec, "", " ")
	os.WriteFile(filepath.Join(verifRoot, "checks", spec.Property+".json"), append(data, '\n'), 0o644)
	fmt.Printf("%s: %d obligations expected\n", spec.Property, len(names))
	return 0
}

// mutationSample runs every n-th syntactic mutant of the property's units (about 40 of them; which ones depends on the
// seed) through `gcv mutate` and returns its summary line.  It informs (contract adequacy), it never decides the check.
func mutationSample(prop string, seed int) string {
	exe, err := os.Executable()
	if err != nil {
		return ""
	}
	stride := 25
	ctx, cancel := context.WithTimeout(context.Background(), 15*time.Minute)
	defer cancel()
	cmd := exec.CommandContext(ctx, exe, "mutate", "-property", prop, "-stride", strconv.Itoa(stride), "-phase", strconv.Itoa(seed), "-j", "8")
	out, _ := cmd.Output()
	lines := strings.Split(strings.TrimSpace(string(out)), "\n")
	if len(lines) == 0 {
		return ""
	}
	return fmt.Sprintf("every %dth mutant of the units of %s (phase %d): %s", stride, prop, seed%stride, lines[len(lines)-1])
}
