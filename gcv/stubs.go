package main

func cmdSelftest(args []string) int { return 0 }
func cmdReplay(args []string) int   { return 0 }

// tryReplay attempts to reproduce a refuted obligation on the real code.
func tryReplay(cr *checkRun, a *AggOb, path string) (bool, string) { return false, "" }
