package main

func cmdCheck(args []string) int    { return 0 }
func cmdExpect(args []string) int   { return 0 }
func cmdSelftest(args []string) int { return 0 }
func cmdReplay(args []string) int   { return 0 }
