package main

func cmdSelftest(args []string) int { return 0 }
