package main

// Contract adequacy by mutation (DESIGN.md §8.7): `gcv mutate` applies small syntactic mutations to the bodies of the
// functions under contract (in memory, through the loader's overlay — nothing is written under /repo), re-verifies the
// mutated function (and its function literals) and reports the mutants no claimed obligation notices.  A surviving
// mutant is either equivalent / irrelevant to the properties, or a hole in the contracts; the list is triaged by hand.
// Verification is modular, so a mutation inside a function can only be noticed by that function's own obligations:
// re-verifying the one unit (plus its literals) is exact, not an approximation.

import (
	"encoding/json"
	"flag"
	"fmt"
	"go/ast"
	"go/token"
	"go/types"
	"os"
	"path/filepath"
	"sort"
	"strconv"
	"strings"
	"sync"
)

// A triage entry explains why a surviving mutant is not a hole in the contracts (equivalent under the contracts'
// assumptions, dead branch, or behaviour no property speaks about).  Matching is by function, operator and the
// mutated text (prefix), never by line.
type triageEntry struct {
	Func   string `json:"func"`
	Op     string `json:"op,omitempty"`     // empty: any operator
	Before string `json:"before,omitempty"` // prefix of the mutated source text; empty: any
	Reason string `json:"reason"`
}

func loadTriage() []triageEntry {
	data, err := os.ReadFile(filepath.Join(verifRoot, "mutation", "triage.json"))
	if err != nil {
		return nil
	}
	var t []triageEntry
	json.Unmarshal(data, &t)
	return t
}

func triaged(t []triageEntry, m *srcMutant) string {
	for _, e := range t {
		if e.Func != m.Func {
			continue
		}
		if e.Op != "" && e.Op != m.Op {
			continue
		}
		if e.Before != "" && !strings.HasPrefix(m.Before, e.Before) {
			continue
		}
		return e.Reason
	}
	return ""
}

type srcMutant struct {
	File       string `json:"file"`
	Line       int    `json:"line"`
	Func       string `json:"func"`
	Op         string `json:"op"`
	Before     string `json:"before"`
	After      string `json:"after"`
	Status     string `json:"status"` // killed | survived | invalid
	KilledBy   string `json:"killed_by,omitempty"`
	Triage     string `json:"triage,omitempty"`
	start, end int
	repl       string
	units      []string
	own        bool // -property: noticed by an obligation of that property's own check
	path       string
	mod        string
}

func expectedNames() map[string]bool {
	out := map[string]bool{}
	files, _ := filepath.Glob(filepath.Join(verifRoot, "checks", "C*.json"))
	for _, f := range files {
		data, err := os.ReadFile(f)
		if err != nil {
			continue
		}
		var s CheckSpec
		if json.Unmarshal(data, &s) == nil {
			for _, n := range s.Expect {
				out[n] = true
			}
		}
	}
	for _, k := range loadKnown() {
		if k.Status == "known" {
			delete(out, k.Obligation)
		}
	}
	return out
}

// gen3On adds the third-generation operators: changes that add or drop something at a call (the kind the eighth blind
// wave used: an option added to a call, an effect performed twice, one half of a condition dropped).
var gen3On bool

func genMutants(fset *token.FileSet, src []byte, fd *ast.FuncDecl, ops map[string]bool, info *types.Info, gen2 bool) []srcMutant {
	var out []srcMutant
	off := func(p token.Pos) int { return fset.Position(p).Offset }
	add := func(op string, s, e int, repl string, pos token.Pos) {
		if !ops[op] && len(ops) > 0 {
			return
		}
		before := string(src[s:e])
		if len(before) > 120 {
			before = before[:120] + "…"
		}
		after := repl
		if len(after) > 120 {
			after = after[:120] + "…"
		}
		out = append(out, srcMutant{Line: fset.Position(pos).Line, Op: op, Before: before, After: after, start: s, end: e, repl: repl})
	}
	swap := map[token.Token]string{token.LSS: "<=", token.LEQ: "<", token.GTR: ">=", token.GEQ: ">", token.EQL: "!=", token.NEQ: "==",
		token.ADD: "-", token.SUB: "+", token.LAND: "||", token.LOR: "&&"}
	ast.Inspect(fd.Body, func(n ast.Node) bool {
		switch x := n.(type) {
		case *ast.IfStmt:
			add("negate-if", off(x.Cond.Pos()), off(x.Cond.End()), "!("+string(src[off(x.Cond.Pos()):off(x.Cond.End())])+")", x.Pos())
			if x.Else == nil && x.Init == nil {
				add("delete-if", off(x.Pos()), off(x.End()), "", x.Pos())
			}
		case *ast.BinaryExpr:
			if r, ok := swap[x.Op]; ok {
				kind := "relational"
				switch x.Op {
				case token.ADD, token.SUB:
					kind = "arith"
				case token.LAND, token.LOR:
					kind = "logical"
				}
				add(kind, off(x.OpPos), off(x.OpPos)+len(x.Op.String()), r, x.OpPos)
			}
		case *ast.ExprStmt:
			add("delete-call", off(x.Pos()), off(x.End()), "", x.Pos())
		case *ast.AssignStmt:
			if x.Tok != token.DEFINE {
				add("delete-assign", off(x.Pos()), off(x.End()), "", x.Pos())
			}
		case *ast.IncDecStmt:
			add("delete-incdec", off(x.Pos()), off(x.End()), "", x.Pos())
		case *ast.ReturnStmt:
			if n := len(x.Results); n >= 1 {
				if id, ok := x.Results[n-1].(*ast.Ident); ok && (id.Name == "err" || strings.HasSuffix(id.Name, "Err") || strings.HasPrefix(id.Name, "err")) && id.Name != "nil" {
					add("return-nil-error", off(id.Pos()), off(id.End()), "nil", x.Pos())
				}
			}
		case *ast.BranchStmt:
			if x.Label == nil {
				switch x.Tok {
				case token.CONTINUE:
					add("continue-break", off(x.Pos()), off(x.End()), "break", x.Pos())
				case token.BREAK:
					add("break-continue", off(x.Pos()), off(x.End()), "continue", x.Pos())
				}
			}
		case *ast.BasicLit:
			if x.Kind == token.INT {
				if v, err := strconv.ParseInt(x.Value, 0, 64); err == nil && v < 1<<40 {
					add("literal+1", off(x.Pos()), off(x.End()), strconv.FormatInt(v+1, 10), x.Pos())
				}
			}
		case *ast.DeferStmt:
			add("delete-defer", off(x.Pos()), off(x.End()), "", x.Pos())
		}
		if gen3On {
			switch x := n.(type) {
			case *ast.CallExpr:
				if x.Ellipsis.IsValid() && len(x.Args) >= 1 {
					// f(a, xs...) -> f(a): the forwarded variadic arguments are dropped
					last := x.Args[len(x.Args)-1]
					s := off(last.Pos())
					if len(x.Args) >= 2 {
						s = off(x.Args[len(x.Args)-2].End())
					}
					add("drop-variadic", s, off(x.Rparen), "", x.Pos())
				}
			case *ast.BinaryExpr:
				if x.Op == token.LAND || x.Op == token.LOR {
					// one operand of && / || dropped
					add("drop-conjunct", off(x.Pos()), off(x.End()), string(src[off(x.X.Pos()):off(x.X.End())]), x.OpPos)
					add("drop-conjunct", off(x.Pos()), off(x.End()), string(src[off(x.Y.Pos()):off(x.Y.End())]), x.OpPos)
				}
			case *ast.BlockStmt:
				for _, st := range x.List {
					dup := false
					switch y := st.(type) {
					case *ast.ExprStmt:
						_, dup = y.X.(*ast.CallExpr)
					case *ast.AssignStmt:
						if y.Tok == token.ASSIGN && len(y.Rhs) == 1 {
							_, dup = y.Rhs[0].(*ast.CallExpr)
						}
					case *ast.IncDecStmt:
						dup = true
					}
					if dup {
						// the statement (an effect) is performed twice
						t := string(src[off(st.Pos()):off(st.End())])
						add("dup-stmt", off(st.Pos()), off(st.End()), t+"\n"+t, st.Pos())
					}
				}
			}
		}
		if !gen2 {
			return true
		}
		// second generation: the kinds of change the blind seed waves used that the first operator set lacks
		switch x := n.(type) {
		case *ast.BinaryExpr:
			switch x.Op {
			case token.EQL:
				add("widen-eq", off(x.OpPos), off(x.OpPos)+2, "<=", x.OpPos)
				add("widen-eq", off(x.OpPos), off(x.OpPos)+2, ">=", x.OpPos)
			case token.NEQ:
				add("narrow-neq", off(x.OpPos), off(x.OpPos)+2, "<", x.OpPos)
				add("narrow-neq", off(x.OpPos), off(x.OpPos)+2, ">", x.OpPos)
			}
		case *ast.UnaryExpr:
			if x.Op == token.NOT {
				add("drop-not", off(x.OpPos), off(x.OpPos)+1, "", x.OpPos)
			}
		case *ast.BasicLit:
			if x.Kind == token.INT {
				if v, err := strconv.ParseInt(x.Value, 0, 64); err == nil && v >= 1 && v < 1<<40 {
					add("literal-1", off(x.Pos()), off(x.End()), strconv.FormatInt(v-1, 10), x.Pos())
				}
			}
		case *ast.CallExpr:
			// swap two adjacent arguments (the compiler rejects it unless their types agree)
			for i := 0; i+1 < len(x.Args); i++ {
				a, b := x.Args[i], x.Args[i+1]
				sa, sb := string(src[off(a.Pos()):off(a.End())]), string(src[off(b.Pos()):off(b.End())])
				if sa != sb {
					add("swap-args", off(a.Pos()), off(b.End()), sb+string(src[off(a.End()):off(b.Pos())])+sa, a.Pos())
				}
			}
		case *ast.BlockStmt:
			// swap two adjacent simple statements
			for i := 0; i+1 < len(x.List); i++ {
				a, b := x.List[i], x.List[i+1]
				simple := func(st ast.Stmt) bool {
					switch y := st.(type) {
					case *ast.ExprStmt, *ast.IncDecStmt:
						return true
					case *ast.AssignStmt:
						return y.Tok != token.DEFINE || true
					}
					return false
				}
				if simple(a) && simple(b) {
					sa, sb := string(src[off(a.Pos()):off(a.End())]), string(src[off(b.Pos()):off(b.End())])
					add("swap-stmts", off(a.Pos()), off(b.End()), sb+string(src[off(a.End()):off(b.Pos())])+sa, a.Pos())
				}
			}
		case *ast.SelectorExpr:
			// another field of the same struct with the identical type (the "wrong option passed" change)
			if info != nil {
				if sel, ok := info.Selections[x]; ok && sel.Kind() == types.FieldVal {
					if st, ok := derefStruct(sel.Recv()); ok {
						n := 0
						for i := 0; i < st.NumFields() && n < 2; i++ {
							f := st.Field(i)
							if f.Name() != x.Sel.Name && types.Identical(f.Type(), sel.Obj().Type()) && (f.Exported() || f.Pkg() == sel.Obj().Pkg()) {
								add("sibling-field", off(x.Sel.Pos()), off(x.Sel.End()), f.Name(), x.Sel.Pos())
								n++
							}
						}
					}
				}
			}
		}
		return true
	})
	return out
}

func derefStruct(t types.Type) (*types.Struct, bool) {
	if p, ok := t.Underlying().(*types.Pointer); ok {
		t = p.Elem()
	}
	st, ok := t.Underlying().(*types.Struct)
	return st, ok
}

func cmdMutate(args []string) int {
	fs := flag.NewFlagSet("mutate", flag.ExitOnError)
	fileF := fs.String("file", "", "only files whose path contains this")
	funcF := fs.String("func", "", "only functions whose key contains this")
	outF := fs.String("out", "", "write all results as JSON lines here")
	par := fs.Int("j", 10, "mutants verified in parallel")
	opsF := fs.String("ops", "", "comma separated operators (default: all)")
	limit := fs.Int("limit", 0, "stop after this many mutants (0: no limit)")
	gen2F := fs.Bool("gen2", false, "add the second-generation operators (widen ==, narrow !=, drop !, literal-1, swap adjacent arguments / statements, sibling field of the same type)")
	onlyGen2 := fs.Bool("only-gen2", false, "with -gen2: run only the second-generation operators")
	gen3F := fs.Bool("gen3", false, "run only the third-generation operators (drop forwarded variadic arguments, perform a statement twice, drop one operand of && / ||)")
	propF := fs.String("property", "", "only obligations on the expectation list of this property's check")
	stride := fs.Int("stride", 1, "take every n-th mutant ...")
	phase := fs.Int("phase", 0, "... starting with this one (a sample that changes with the seed)")
	anyOb := fs.Bool("any", false, "count every obligation of the unit, not only those on the expectation lists of the checks (contract development)")
	fs.Parse(args)
	ops := map[string]bool{}
	for _, o := range strings.Split(*opsF, ",") {
		if o != "" {
			ops[o] = true
		}
	}
	opsGiven := len(ops) > 0
	if *gen3F {
		gen3On = true
		if len(ops) == 0 {
			ops = map[string]bool{"drop-variadic": true, "dup-stmt": true, "drop-conjunct": true}
		}
	}
	expected := expectedNames()
	propOwn := map[string]bool{}   // -property: the obligations of that property's own check
	propUnits := map[string]bool{} // -property: its units (functions of the check)
	if *propF != "" {
		spec, err := loadSpec(*propF)
		if err != nil {
			fmt.Fprintln(os.Stderr, err)
			return 2
		}
		for _, n := range spec.Expect {
			if expected[n] {
				propOwn[n] = true
			}
		}
		for _, u := range spec.Units {
			propUnits[u.Func] = true
		}
	}
	var all []srcMutant
	baseline := map[string]map[string]string{} // unit key -> agg name -> status
	baseAll := map[string]map[string]bool{}    // unit key -> every agg name the unchanged function generates
	unitChecks := loadUnitChecks()
	for _, mod := range []string{".", "v2", "cmd"} {
		eng, err := getEngine(mod, nil)
		if err != nil {
			fmt.Fprintln(os.Stderr, "cannot load", mod, err)
			return 2
		}
		for _, p := range eng.pkgs {
			for _, f := range p.Syntax {
				path := eng.fset.Position(f.Pos()).Filename
				if strings.HasSuffix(path, "_test.go") || strings.Contains(path, "zz_contracts") || !strings.HasPrefix(path, repoRoot) {
					continue
				}
				if *fileF != "" && !strings.Contains(path, *fileF) {
					continue
				}
				src, err := os.ReadFile(path)
				if err != nil {
					continue
				}
				for _, d := range f.Decls {
					fd, ok := d.(*ast.FuncDecl)
					if !ok || fd.Body == nil {
						continue
					}
					obj, _ := p.TypesInfo.Defs[fd.Name].(*types.Func)
					if obj == nil {
						continue
					}
					key := obj.FullName()
					if *funcF != "" && !strings.Contains(key, *funcF) {
						continue
					}
					if *propF != "" {
						hit := false
						for k := range eng.funcs {
							if (k == key || strings.HasPrefix(k, key+"$")) && propUnits[k] {
								hit = true
							}
						}
						if !hit {
							continue
						}
					}
					var units []string
					for k := range eng.funcs {
						if k == key || strings.HasPrefix(k, key+"$") {
							pre := displayName(k) + "#"
							if *anyOb && eng.contracts[k] != nil {
								units = append(units, k)
								continue
							}
							for n := range expected {
								if strings.HasPrefix(n, pre) {
									units = append(units, k)
									break
								}
							}
						}
					}
					if len(units) == 0 {
						continue
					}
					sort.Strings(units)
					for _, u := range units {
						if _, ok := baseline[u]; ok {
							continue
						}
						res := eng.verifyFunc(u, 5, 0, false, true)
						st := map[string]string{}
						seen := map[string]bool{}
						for _, a := range aggregate(res.Obs) {
							seen[a.Name] = true
							if expected[a.Name] || *anyOb {
								st[a.Name] = a.Status
							}
						}
						baseline[u] = st
						baseAll[u] = seen
					}
					for _, m := range genMutants(eng.fset, src, fd, ops, p.TypesInfo, *gen2F) {
						m.File = strings.TrimPrefix(path, repoRoot+"/")
						m.Func = displayName(key)
						m.units = units
						m.path = path
						m.mod = mod
						all = append(all, m)
					}
				}
			}
		}
	}
	if *onlyGen2 {
		g2 := map[string]bool{"widen-eq": true, "narrow-neq": true, "drop-not": true, "literal-1": true, "swap-args": true, "swap-stmts": true, "sibling-field": true}
		var pick []srcMutant
		for _, m := range all {
			if g2[m.Op] {
				pick = append(pick, m)
			}
		}
		all = pick
	}
	if *stride > 1 {
		var pick []srcMutant
		for i, m := range all {
			if i%*stride == *phase%*stride {
				pick = append(pick, m)
			}
		}
		all = pick
	}
	if *limit > 0 && len(all) > *limit {
		all = all[:*limit]
	}
	fmt.Fprintf(os.Stderr, "%d mutants over %d units\n", len(all), len(baseline))
	var wg sync.WaitGroup
	sem := make(chan struct{}, *par)
	var mu sync.Mutex
	done := 0
	for i := range all {
		i := i
		wg.Add(1)
		sem <- struct{}{}
		go func() {
			defer wg.Done()
			defer func() { <-sem }()
			m := &all[i]
			src, _ := os.ReadFile(m.path)
			mut := string(src[:m.start]) + m.repl + string(src[m.end:])
			dir := repoRoot
			if m.mod != "." {
				dir = filepath.Join(repoRoot, m.mod)
			}
			eng, err := loadEngine(dir, map[string][]byte{m.path: []byte(mut)})
			if err != nil {
				m.Status = "invalid"
				return
			}
			m.Status = "survived"
			for _, u := range m.units {
				if eng.funcs[u] == nil {
					m.Status, m.KilledBy = "killed", u+" vanished"
					break
				}
				res := eng.verifyFunc(u, 5, 0, false, true)
				if len(res.Errs) > 0 {
					m.Status, m.KilledBy = "killed", "contract no longer applies: "+res.Errs[0]
					break
				}
				got := map[string]string{}
				for _, a := range aggregate(res.Obs) {
					got[a.Name] = a.Status
				}
				for n, st := range baseline[u] {
					if st != "proved" {
						continue
					}
					if g, ok := got[n]; !ok {
						m.Status, m.KilledBy = "killed", n+" (vanished)"
					} else if g != "proved" {
						m.Status, m.KilledBy = "killed", n
					} else {
						continue
					}
					if propOwn[n] {
						m.own = true
					}
					if len(propOwn) == 0 || m.own {
						break
					}
				}
				if m.Status == "killed" && (len(propOwn) == 0 || m.own) {
					break
				}
				if m.Status == "survived" {
					// an obligation the unchanged function does not generate (a new call site's precondition, a new
					// allocation, a new write under a lock …) and that is not discharged: `gcv check` reports every
					// obligation of a unit it selects, expected or not, so this mutant is noticed as well
					for _, a := range aggregate(res.Obs) {
						if baseAll[u][a.Name] || a.Status == "proved" || isErrProp(a.Name) {
							continue
						}
						if by := reportedBy(u, a, unitChecks); by != "" && (*propF == "" || by == *propF) {
							m.Status, m.KilledBy = "killed", a.Name+" (new obligation, not discharged; check "+by+")"
							if *propF != "" {
								m.own = true
							}
							break
						}
					}
					if m.Status == "killed" {
						break
					}
				}
			}
			mu.Lock()
			done++
			if done%100 == 0 {
				fmt.Fprintf(os.Stderr, "%d/%d\n", done, len(all))
			}
			mu.Unlock()
		}()
	}
	wg.Wait()
	counts := map[string]int{}
	var outb strings.Builder
	tri := loadTriage()
	for i := range all {
		m := &all[i]
		if m.Status == "survived" {
			if r := triaged(tri, m); r != "" {
				m.Status, m.Triage = "survived-triaged", r
			}
		}
		counts[m.Status]++
		data, _ := json.Marshal(m)
		outb.Write(data)
		outb.WriteByte('\n')
		if m.Status == "survived" {
			fmt.Printf("SURVIVED %s:%d %s [%s] %q -> %q\n", m.File, m.Line, m.Func, m.Op, m.Before, m.After)
		}
	}
	if *outF != "" {
		os.WriteFile(*outF, []byte(outb.String()), 0o644)
	}
	if *fileF == "" && *funcF == "" && *limit == 0 && !*anyOb && !opsGiven && *propF == "" && *stride <= 1 {
		// a complete sweep: keep its summary next to the triage file
		byOp := map[string]map[string]int{}
		var open []map[string]interface{}
		for _, m := range all {
			if byOp[m.Op] == nil {
				byOp[m.Op] = map[string]int{}
			}
			byOp[m.Op][m.Status]++
			if m.Status == "survived" {
				open = append(open, map[string]interface{}{"file": m.File, "func": m.Func, "op": m.Op, "before": m.Before, "after": m.After})
			}
		}
		rep := map[string]interface{}{
			"mutants": len(all), "killed": counts["killed"], "invalid_do_not_compile": counts["invalid"],
			"survived_explained_in_mutation_triage": counts["survived-triaged"], "survived_unexplained": counts["survived"],
			"units_mutated": len(baseline), "by_operator": byOp, "unexplained": open,
			"rule": "a mutant is killed when an obligation on the expectation lists of the checks stops being discharged, vanishes, or the contract no longer applies; only the mutated function and its literals are re-verified (modular verification)",
		}
		data, _ := json.MarshalIndent(rep, "", " ")
		name := "report.json"
		if *gen3F {
			name = "report_gen3.json"
		} else if *onlyGen2 {
			name = "report_gen2.json" // the second-generation operators are swept and reported separately
		} else if *gen2F {
			name = "report_all.json"
		}
		os.WriteFile(filepath.Join(verifRoot, "mutation", name), append(data, '\n'), 0o644)
	}
	if *propF != "" {
		ownN := 0
		for _, m := range all {
			if m.Status == "killed" && m.own {
				ownN++
			}
		}
		fmt.Printf("mutants of the units of %s: %d noticed by this check, %d only by the check of another property, %d survive with an explanation in mutation/triage.json, %d survive unexplained, %d do not compile\n",
			*propF, ownN, counts["killed"]-ownN, counts["survived-triaged"], counts["survived"], counts["invalid"])
		return 0
	}
	fmt.Printf("mutants: %d killed, %d survived without an explanation, %d survived and explained in mutation/triage.json, %d invalid (do not compile)\n", counts["killed"], counts["survived"], counts["survived-triaged"], counts["invalid"])
	return 0
}

// unitCheck: one (property, unit) pair under which a function is verified by a check.
type unitCheck struct {
	prop string
	unit Unit
}

func loadUnitChecks() map[string][]unitCheck {
	out := map[string][]unitCheck{}
	files, _ := filepath.Glob(filepath.Join(verifRoot, "checks", "C*.json"))
	for _, f := range files {
		data, err := os.ReadFile(f)
		if err != nil {
			continue
		}
		var s CheckSpec
		if json.Unmarshal(data, &s) == nil {
			for _, u := range s.Units {
				out[u.Func] = append(out[u.Func], unitCheck{s.Property, u})
			}
		}
	}
	return out
}

// reportedBy names a check whose selection rule (selectObs) includes a part of this obligation that is not discharged.
func reportedBy(fn string, a *AggOb, uc map[string][]unitCheck) string {
	for _, c := range uc[fn] {
		r := &FuncResult{}
		for _, p := range a.Parts {
			if p.Status != "proved" {
				r.Obs = append(r.Obs, p)
			}
		}
		if len(selectObs(r, c.unit, c.prop)) > 0 {
			return c.prop
		}
	}
	return ""
}
