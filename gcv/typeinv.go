package main

// Object invariants (`typeinv T label: expr over this`) couple the real fields
// of an in-repo reader/writer type with the ghost state the interface-level
// contracts speak about (pos, wn, cell, lim, sbase).  They are
//   - assumed for pointer parameters / receivers at function entry,
//   - proved for the receiver at every return of a method of T,
//   - re-established at call sites: after an object of type T has been passed
//     to a callee, the fields its invariant mentions are forgotten and the
//     invariant is assumed (the callee may have changed them behind an
//     interface; it is obliged to keep the invariant),
//   - chosen for freshly allocated objects named in a `ghostinit` clause
//     (the ghost state of a new object is ours to define).

import (
	"go/ast"
	"go/token"
	"go/types"
	"strings"

	"golang.org/x/tools/go/ssa"
)

func (fe *FnExec) invsOf(pointee types.Type) []Clause {
	if pointee == nil {
		return nil
	}
	return fe.eng.voc.TypeInvs[typeName(pointee)]
}

// objOf recognises a value as a pointer to an object whose type has invariants.
func (fe *FnExec) objOf(v Val) (PtrV, bool) {
	switch x := v.(type) {
	case PtrV:
		if x.Cell == nil && x.ElemOf == nil && !x.Interior && len(fe.invsOf(x.Pointee)) > 0 {
			return x, true
		}
	case RefV:
		if t, ok := fe.ifaceType[x.T]; ok && len(fe.invsOf(t)) > 0 {
			return PtrV{Base: x.T, Prefix: typeName(t), Pointee: t}, true
		}
	}
	return PtrV{}, false
}

func (fe *FnExec) invCtx(st *State, obj PtrV) *EvalCtx {
	var pkg *types.Package
	if n, ok := obj.Pointee.(*types.Named); ok {
		pkg = n.Obj().Pkg()
	}
	return &EvalCtx{fe: fe, st: st, old: st, binds: map[string]Val{"this": obj}, pkg: pkg, conFile: "vocab typeinv " + typeName(obj.Pointee)}
}

func (fe *FnExec) assumeTypeInv(st *State, obj PtrV, why string) {
	for _, inv := range fe.invsOf(obj.Pointee) {
		g := fe.invCtx(st, obj).evalBool(inv.X)
		fe.assume(tImp(tAnd(st.pc, tNot(tEq(obj.Base, "0"))), g), "object invariant "+inv.Label+" ("+why+")")
	}
}

func (fe *FnExec) obligeTypeInv(fr *frame, st *State, obj PtrV, tag string, pos token.Pos) {
	for _, inv := range fe.invsOf(obj.Pointee) {
		g := fe.invCtx(st, obj).evalBool(inv.X)
		fe.oblige(fr, "typeinv:"+inv.Label+tag, inv.Props, st.pc, g, pos, "object invariant of "+typeName(obj.Pointee)+": "+inv.Src)
	}
}

// invFieldNames lists the fields `this.f` an invariant mentions.
func invFieldNames(cs []Clause) []string {
	seen := map[string]bool{}
	var out []string
	var walk func(x *CExpr)
	walk = func(x *CExpr) {
		if x == nil {
			return
		}
		walk(x.L)
		walk(x.R)
		if x.E != nil {
			ast.Inspect(x.E, func(n ast.Node) bool {
				if se, ok := n.(*ast.SelectorExpr); ok {
					if id, ok := se.X.(*ast.Ident); ok && id.Name == "this" && !seen[se.Sel.Name] {
						seen[se.Sel.Name] = true
						out = append(out, se.Sel.Name)
					}
				}
				return true
			})
		}
	}
	for _, c := range cs {
		walk(c.X)
	}
	return out
}

// reestablish: after obj was passed to a callee, forget the fields its invariant
// mentions and assume the invariant again.
func (fe *FnExec) reestablish(st *State, obj PtrV) {
	stt, ok := obj.Pointee.Underlying().(*types.Struct)
	if !ok {
		return
	}
	for _, f := range invFieldNames(fe.invsOf(obj.Pointee)) {
		i := fieldIndex(stt, f)
		if i < 0 {
			continue
		}
		ft := stt.Field(i).Type()
		fe.havocHeapObj(st, obj.Prefix+"."+f, obj.Base, ft)
	}
	fe.assumeTypeInv(st, obj, "after call")
}

type invCase struct {
	cond Term
	obj  PtrV
}

// invCases enumerates the object-invariant instances that apply to value v of
// static type t: the object itself when its type is known, otherwise one case
// per in-repo type with invariants that could be its dynamic type.
func (fe *FnExec) invCases(v Val, t types.Type, oblige bool) []invCase {
	if obj, ok := fe.objOf(v); ok {
		if obj.Base == "0" {
			return nil
		}
		return []invCase{{tNot(tEq(obj.Base, "0")), obj}}
	}
	rv, ok := v.(RefV)
	if !ok || rv.T == "0" || t == nil {
		return nil
	}
	iface, ok := t.Underlying().(*types.Interface)
	if !ok {
		return nil
	}
	if _, known := fe.ifaceType[rv.T]; known {
		return nil // boxed pointer of a type without invariants
	}
	if oblige && !fe.owned[rv.T] {
		// an object of unknown dynamic type that this function did not create: its
		// invariant is the business of whoever created it (no obligation); after a
		// call it may still be assumed, since every method preserves it
		return nil
	}
	var out []invCase
	for _, tn := range sortedKeys(fe.eng.voc.TypeInvs) {
		T := fe.eng.lookupType(tn)
		if T == nil {
			continue
		}
		pt := types.NewPointer(T)
		if !types.Implements(pt, iface) {
			continue
		}
		cond := tAnd(tNot(tEq(rv.T, "0")), tEq(sx("dyn", rv.T), tInt(int64(fe.tid(pt)))))
		if oblige {
			cond = tAnd(sx("<", "HW", rv.T), cond)
		}
		out = append(out, invCase{cond, PtrV{Base: rv.T, Prefix: typeName(T), Pointee: T}})
	}
	return out
}

// preCallInv: every object handed to a callee must satisfy its invariant.  Objects
// that existed at function entry satisfied it then (visible-state semantics).
func (fe *FnExec) preCallInv(fr *frame, st *State, site string, full []Val, types_ []types.Type, pos token.Pos) {
	for i, a := range full {
		var t types.Type
		if i < len(types_) {
			t = types_[i]
		}
		for _, c := range fe.invCases(a, t, true) {
			for _, inv := range fe.invsOf(c.obj.Pointee) {
				if fr.entry != nil && !strings.HasPrefix(strings.TrimPrefix(c.obj.Base, "|"), "obj.") {
					g0 := fe.invCtx(fr.entry, c.obj).evalBool(inv.X)
					fe.assume(tImp(c.cond, g0), "object invariant "+inv.Label+" held at entry (visible-state semantics)")
				}
				g := fe.invCtx(st, c.obj).evalBool(inv.X)
				fe.oblige(fr, "call["+site+"].typeinv:"+typeName(c.obj.Pointee)+"."+inv.Label, inv.Props, tAnd(st.pc, c.cond), g, pos, "object handed to a callee satisfies its invariant: "+inv.Src)
			}
		}
	}
}

func (fe *FnExec) reestablishArgs(st *State, full []Val, types_ []types.Type) {
	// a wrapper handed to the callee reads through the object it wraps: that object's methods ran too
	for _, a := range append([]Val(nil), full...) {
		seen := 0
		for w, ok := fe.wraps[termOf(a)]; ok && seen < 4; w, ok = fe.wraps[termOf(w)] {
			full = append(full, w)
			types_ = append(append([]types.Type(nil), types_...), make([]types.Type, len(full)-len(types_)-1)...)
			types_ = append(types_, anyReaderType)
			seen++
		}
	}
	for i, a := range full {
		var t types.Type
		if i < len(types_) {
			t = types_[i]
		}
		for _, c := range fe.invCases(a, t, false) {
			stt, ok := c.obj.Pointee.Underlying().(*types.Struct)
			if !ok {
				continue
			}
			for _, f := range invFieldNames(fe.invsOf(c.obj.Pointee)) {
				if fi := fieldIndex(stt, f); fi >= 0 {
					fe.havocHeapObjCond(st, c.obj.Prefix+"."+f, c.obj.Base, stt.Field(fi).Type(), c.cond)
				}
			}
			for _, inv := range fe.invsOf(c.obj.Pointee) {
				g := fe.invCtx(st, c.obj).evalBool(inv.X)
				fe.assume(tImp(tAnd(st.pc, c.cond), g), "object invariant "+inv.Label+" (after call)")
			}
		}
	}
}

// assumeResultInv: results named in the callee's ghostinit clause satisfy their invariants.
func (fe *FnExec) assumeResultInv(st *State, v Val, t types.Type) {
	if rv, ok := v.(RefV); ok {
		fe.owned[rv.T] = true
	}
	for _, c := range fe.invCases(v, t, false) {
		for _, inv := range fe.invsOf(c.obj.Pointee) {
			g := fe.invCtx(st, c.obj).evalBool(inv.X)
			fe.assume(tImp(tAnd(st.pc, c.cond), g), "object invariant "+inv.Label+" of a constructor result")
		}
	}
}

// atReturn: ghost updates `before return`, ghostinit, receiver invariant, interface conformance.
func (fe *FnExec) atReturn(fr *frame, st *State, x *ssa.Return, rv []Val) {
	con := fr.con
	if con != nil {
		for _, g := range con.Ghosts {
			if g.After != "return" {
				continue
			}
			ctx := fe.ctxFor(fr, st)
			ctx.old = fr.entry
			ctx.bindResults(fr.fn.Signature, rv)
			nv := ctx.eval(g.RHS.E)
			fe.assignLvalue(ctx, st, g.LHS, nv)
		}
		for _, ch := range con.Chooses {
			ctx := fe.ctxFor(fr, st)
			ctx.old = fr.entry
			ctx.bindResults(fr.fn.Signature, rv)
			fe.assume(tImp(st.pc, ctx.evalBool(ch.X)), "ghost constant of a fresh object chosen: "+ch.Label)
		}
		for _, name := range con.GhostInit {
			ctx := fe.ctxFor(fr, st)
			ctx.bindResults(fr.fn.Signature, rv)
			v := ctx.evalIdent(name)
			if obj, ok := fe.objOf(v); ok {
				for _, inv := range fe.invsOf(obj.Pointee) {
					g := fe.invCtx(st, obj).evalBool(inv.X)
					fe.assume(tImp(tAnd(st.pc, sx("<", "HW", obj.Base)), g), "ghost state of a fresh object is chosen to satisfy "+inv.Label)
				}
			}
		}
	}
	// receiver invariant
	sig := fr.fn.Signature
	if sig.Recv() != nil && len(fr.fn.Params) > 0 {
		if obj, ok := fe.objOf(fe.regs[fr.fn.Params[0]]); ok {
			fe.obligeTypeInv(fr, st, obj, "", x.Pos())
		}
	}
	// interface conformance
	if con != nil {
		for _, ik := range con.Implements {
			ic := fe.eng.contracts[ik]
			if ic == nil {
				fe.errorf("%s: implements %s: no such contract", fr.name, ik)
				continue
			}
			isig := fe.eng.ifaceSig(ik)
			binds := map[string]Val{}
			var full []Val
			for _, p := range fr.fn.Params {
				full = append(full, fe.regs[p])
			}
			fe.bindParams(binds, isig, full, true)
			ctx := &EvalCtx{fe: fe, st: st, old: fr.entry, binds: binds, pkg: fe.eng.pkgOfKey(ik), conFile: ic.File}
			ctx.bindResults(isig, rv)
			for _, en := range ic.Ensures {
				if con.ImplExcept[ik+"#"+en.Label] {
					continue
				}
				g := ctx.evalBool(en.X)
				fe.oblige(fr, "implements:"+shortKey(ik)+":"+en.Label, en.Props, st.pc, g, x.Pos(), en.Src)
			}
		}
	}
}

// havocHeapObjCond forgets what is stored under prefix at base, but only when cond holds.
func (fe *FnExec) havocHeapObjCond(st *State, prefix string, base Term, t types.Type, cond Term) {
	if cond == "true" {
		fe.havocHeapObj(st, prefix, base, t)
		return
	}
	var ls []leaf
	structLeaves(t, "", &ls, 0)
	for _, l := range ls {
		names := []string{prefix + l.suffix}
		sorts := []string{sortOfType(l.typ)}
		if _, ok := l.typ.Underlying().(*types.Slice); ok {
			names = []string{prefix + l.suffix + ".ref", prefix + l.suffix + ".len", prefix + l.suffix + ".cap"}
			sorts = []string{"Int", "Int", "Int"}
		}
		for i, n := range names {
			cur := fe.heapGet(st, n, sorts[i])
			nv := fe.fresh("hvc", sorts[i])
			fe.heapSet(st, n, sorts[i], sx("store", cur, base, tIte(cond, nv, sx("select", cur, base))))
		}
	}
}

// anyReaderType: static type used for objects reached through a wrapper (an interface every reader / writer wrapper implements)
var anyReaderType types.Type = types.NewInterfaceType(nil, nil).Complete()
