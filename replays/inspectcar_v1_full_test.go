package lib

// Replay driver for obligation cmd/car/lib.InspectCar#call[File.Read#0].assert:the_probe_reads_behind_the_data_the_scan_read
// (property C13): the inspection reads the archive through ReadAt and leaves the stream's cursor where it was, so the
// probe for trailing data reads the first byte of the archive and full-validation inspection refuses a valid CARv1
// whose verifying scan succeeds.

import (
	"context"
	"os"
	"path/filepath"
	"testing"

	blocks "github.com/ipfs/go-block-format"
	"github.com/ipfs/go-cid"
	carv2 "github.com/ipld/go-car/v2"
	"github.com/ipld/go-car/v2/blockstore"
	"github.com/multiformats/go-multihash"
)

func TestReplayInspectCarV1Full(t *testing.T) {
	path := filepath.Join(t.TempDir(), "v1.car")
	mh, _ := multihash.Sum([]byte("payload"), multihash.SHA2_256, -1)
	blk, _ := blocks.NewBlockWithCid([]byte("payload"), cid.NewCidV1(cid.Raw, mh))
	rw, err := blockstore.OpenReadWrite(path, []cid.Cid{blk.Cid()}, carv2.WriteAsCarV1(true))
	if err != nil {
		t.Fatal(err)
	}
	if err := rw.Put(context.Background(), blk); err != nil {
		t.Fatal(err)
	}
	if err := rw.Finalize(); err != nil {
		t.Fatal(err)
	}
	// the reference: a hash-verifying scan of all blocks succeeds
	f, _ := os.Open(path)
	br, err := carv2.NewBlockReader(f)
	if err != nil {
		t.Fatal(err)
	}
	n := 0
	for {
		_, err := br.Next()
		if err != nil {
			if err.Error() != "EOF" {
				t.Fatal(err)
			}
			break
		}
		n++
	}
	f.Close()
	f, _ = os.Open(path)
	defer f.Close()
	if _, err := InspectCar(f, false); err != nil {
		t.Fatalf("inspection without validation fails: %v", err)
	}
	f2, _ := os.Open(path)
	defer f2.Close()
	if _, err := InspectCar(f2, true); err != nil {
		t.Fatalf("REPLAY-VIOLATION: a valid CARv1 (%d block(s), verifying scan succeeds) is refused by full-validation inspection: %v", n, err)
	}
}
