package lib

// Replay driver for obligation cmd/car/lib.VerifyCar#call[fmt.Errorf#0].assert:never_refuses_what_a_writing_session_finalizes
// (property C05): a finalized writing session that declares no roots has every root among its stored
// blocks, so the verifier has to accept the file.

import (
	"context"
	"path/filepath"
	"testing"

	blocks "github.com/ipfs/go-block-format"
	"github.com/ipfs/go-cid"
	"github.com/ipld/go-car/v2/blockstore"
	"github.com/multiformats/go-multihash"
)

func TestReplayVerifyCarNoRoots(t *testing.T) {
	path := filepath.Join(t.TempDir(), "noroots.car")
	rw, err := blockstore.OpenReadWrite(path, []cid.Cid{})
	if err != nil {
		t.Fatal(err)
	}
	mh, _ := multihash.Sum([]byte("payload"), multihash.SHA2_256, -1)
	blk, _ := blocks.NewBlockWithCid([]byte("payload"), cid.NewCidV1(cid.Raw, mh))
	if err := rw.Put(context.Background(), blk); err != nil {
		t.Fatal(err)
	}
	if err := rw.Finalize(); err != nil {
		t.Fatal(err)
	}
	if err := VerifyCar(path); err != nil {
		t.Fatalf("REPLAY-VIOLATION: a finalized archive with no roots (every root is among the stored blocks) is refused by the verifier: %v", err)
	}
}
