package car

// Replay driver for obligation LoadIndex#call[Seeker.Seek#k].typeinv:...discardingReadSeekerPlusByte.off (property C03):
// the offset-tracking wrapper of a plain (non-seekable) reader is out of sync with the stream because the
// header was read around it.  The index generated from a plain reader must equal the one from a seekable reader.

import (
	"bytes"
	"io"
	"os"
	"testing"

	"github.com/ipld/go-car/v2/index"
	"github.com/multiformats/go-multihash"
)

func replayOffsets(t *testing.T, r io.Reader) (map[string]uint64, error) {
	idx, err := GenerateIndex(r)
	if err != nil {
		return nil, err
	}
	out := map[string]uint64{}
	err = idx.(index.IterableIndex).ForEach(func(mh multihash.Multihash, off uint64) error {
		out[string(mh)] = off
		return nil
	})
	return out, err
}

func TestReplayLoadIndexPlainReader(t *testing.T) {
	for _, name := range []string{"testdata/sample-v1.car", "testdata/sample-wrapped-v2.car"} {
		data, err := os.ReadFile(name)
		if err != nil {
			t.Skip(err)
		}
		want, err := replayOffsets(t, bytes.NewReader(data))
		if err != nil {
			t.Fatalf("setup: %v", err)
		}
		got, err := replayOffsets(t, io.MultiReader(bytes.NewReader(data)))
		if err != nil {
			t.Fatalf("REPLAY-VIOLATION: %s: index generation over a plain io.Reader fails (%v) while it succeeds over a seekable reader", name, err)
		}
		for k, w := range want {
			if g := got[k]; g != w {
				t.Fatalf("REPLAY-VIOLATION: %s: offset of a section differs between plain and seekable source: plain=%d seekable=%d", name, g, w)
			}
		}
	}
}
