package index

// Replay driver for (*InsertionIndex).Marshal#implements:index.Index.Marshal:count (C11): the byte count a Marshal
// reports must equal the bytes it handed to the writer.  GCV_N records (default 3) are inserted.

import (
	"bytes"
	"fmt"
	"os"
	"strconv"
	"testing"

	"github.com/ipfs/go-cid"
	"github.com/multiformats/go-multihash"
)

func TestReplayInsertionMarshalCount(t *testing.T) {
	n := 3
	if v, err := strconv.Atoi(os.Getenv("GCV_N")); err == nil && v >= 0 && v <= 1000 {
		n = v
	}
	ii := NewInsertionIndex()
	for i := 0; i < n; i++ {
		h, _ := multihash.Sum([]byte(fmt.Sprintf("replay %d", i)), multihash.SHA2_256, -1)
		ii.InsertNoReplace(cid.NewCidV1(cid.Raw, h), uint64(100*i))
	}
	var buf bytes.Buffer
	got, err := ii.Marshal(&buf)
	if err != nil {
		t.Fatal(err)
	}
	if got != uint64(buf.Len()) {
		t.Fatalf("REPLAY-VIOLATION: InsertionIndex.Marshal with %d records reports %d bytes written, the writer received %d", n, got, buf.Len())
	}
	var buf2 bytes.Buffer
	total, err := WriteTo(ii, &buf2)
	if err != nil {
		t.Fatal(err)
	}
	if total != uint64(buf2.Len()) {
		t.Fatalf("REPLAY-VIOLATION: index.WriteTo(InsertionIndex with %d records) reports %d bytes written, the writer received %d", n, total, buf2.Len())
	}
}
