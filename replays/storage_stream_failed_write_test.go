package storage

// Replay driver for obligation (*StorageCar).Put#post:ri_on_return_stream (property C16): with a
// plain streaming io.Writer a section that failed half-way cannot be taken back; a later successful Put lands
// after the partial bytes and the stream no longer parses.

import (
	"bytes"
	"context"
	"errors"
	"io"
	"testing"

	"github.com/ipfs/go-cid"
	carv2 "github.com/ipld/go-car/v2"
	"github.com/multiformats/go-multihash"
)

type flakyStream struct {
	buf    bytes.Buffer
	failAt int
	seen   int
}

func (f *flakyStream) Write(p []byte) (int, error) {
	f.seen++
	if f.failAt != 0 && f.seen == f.failAt {
		return 0, errors.New("injected transient write error")
	}
	return f.buf.Write(p)
}

func replayCidST(t *testing.T, data []byte) cid.Cid {
	mh, err := multihash.Sum(data, multihash.SHA2_256, -1)
	if err != nil {
		t.Fatal(err)
	}
	return cid.NewCidV1(cid.Raw, mh)
}

func TestReplayStreamPutAfterFailedWrite(t *testing.T) {
	d1, d2, d3 := []byte("one"), []byte("two-two"), []byte("three")
	c1, c2, c3 := replayCidST(t, d1), replayCidST(t, d2), replayCidST(t, d3)
	fs := &flakyStream{}
	w, err := NewWritable(fs, []cid.Cid{c1}, carv2.WriteAsCarV1(true))
	if err != nil {
		t.Fatal(err)
	}
	ctx := context.Background()
	if err := w.Put(ctx, c1.KeyString(), d1); err != nil {
		t.Fatal(err)
	}
	fs.seen, fs.failAt = 0, 2
	if err := w.Put(ctx, c2.KeyString(), d2); err == nil {
		t.Fatal("setup: injected failure did not surface")
	}
	fs.failAt = 0
	if err := w.Put(ctx, c3.KeyString(), d3); err != nil {
		return // a sticky failure would be an acceptable behaviour
	}
	br, err := carv2.NewBlockReader(bytes.NewReader(fs.buf.Bytes()))
	if err != nil {
		t.Fatal(err)
	}
	n := 0
	for {
		_, err := br.Next()
		if err == io.EOF {
			break
		}
		if err != nil {
			t.Fatalf("REPLAY-VIOLATION: streaming writer: after a failed Put followed by a successful one the stream does not parse: %v (after %d blocks)", err, n)
		}
		n++
	}
}
