package blockstore

// Replay driver for store.Resume#call[iface.Truncate#0].assert:keeps_acknowledged_payload (C06): Finalize writes the
// index and then the 40-byte CARv2 header in one WriteAt; a crash may leave any prefix of that write on disk.  The
// driver finalizes a store with enough blocks for the payload size to need two bytes, then rewrites the header as a
// torn one (characteristics and DataOffset complete, only the GCV_TORN low-order bytes of DataSize, nothing of
// IndexOffset) and reopens the file for read-write: the property allows an error, or a store with every block.

import (
	"context"
	"fmt"
	"os"
	"path/filepath"
	"strconv"
	"testing"

	blocks "github.com/ipfs/go-block-format"
	"github.com/ipfs/go-cid"
	carv2 "github.com/ipld/go-car/v2"
	"github.com/multiformats/go-multihash"
)

func replayBlockTorn(i int) blocks.Block {
	data := []byte(fmt.Sprintf("replay block %d", i))
	h, _ := multihash.Sum(data, multihash.SHA2_256, -1)
	b, _ := blocks.NewBlockWithCid(data, cid.NewCidV1(cid.Raw, h))
	return b
}

func TestReplayResumeTornHeader(t *testing.T) {
	ctx := context.Background()
	path := filepath.Join(t.TempDir(), "torn.car")
	const n = 12
	roots := []cid.Cid{replayBlockTorn(0).Cid()}
	bs, err := OpenReadWrite(path, roots)
	if err != nil {
		t.Fatal(err)
	}
	for i := 0; i < n; i++ {
		if err := bs.Put(ctx, replayBlockTorn(i)); err != nil {
			t.Fatal(err)
		}
	}
	if err := bs.Finalize(); err != nil {
		t.Fatal(err)
	}
	f, err := os.OpenFile(path, os.O_RDWR, 0)
	if err != nil {
		t.Fatal(err)
	}
	var hdr [carv2.HeaderSize]byte
	if _, err := f.ReadAt(hdr[:], carv2.PragmaSize); err != nil {
		t.Fatal(err)
	}
	torn := 1
	if v, err := strconv.Atoi(os.Getenv("GCV_TORN")); err == nil && v >= 1 && v < 8 {
		torn = v
	}
	for i := 24 + torn; i < len(hdr); i++ { // bytes of the header write that never reached the disk are still zero
		hdr[i] = 0
	}
	if _, err := f.WriteAt(hdr[:], carv2.PragmaSize); err != nil {
		t.Fatal(err)
	}
	f.Close()
	before, _ := os.Stat(path)
	bs2, err := OpenReadWrite(path, roots)
	if err != nil {
		after, _ := os.Stat(path)
		if after.Size() < before.Size() {
			rd, rerr := OpenReadOnly(path)
			missing := 0
			if rerr == nil {
				for i := 0; i < n; i++ {
					if has, _ := rd.Has(ctx, replayBlockTorn(i).Cid()); !has {
						missing++
					}
				}
				rd.Close()
			}
			t.Fatalf("REPLAY-VIOLATION: reopening a file with a torn header failed (%v) after truncating it from %d to %d bytes (read-only reopen: err=%v, %d of %d blocks missing)", err, before.Size(), after.Size(), rerr, missing, n)
		}
		t.Logf("replay: reopening fails with %v and leaves the file alone (allowed)", err)
		return
	}
	defer bs2.Discard()
	missing := 0
	for i := 0; i < n; i++ {
		if has, _ := bs2.Has(ctx, replayBlockTorn(i).Cid()); !has {
			missing++
		}
	}
	after, _ := os.Stat(path)
	if missing > 0 {
		t.Fatalf("REPLAY-VIOLATION: resuming a file whose header write was torn after %d bytes of DataSize truncated it from %d to %d bytes: %d of %d acknowledged blocks are gone", torn, before.Size(), after.Size(), missing, n)
	}
}
