package car

// Replay driver for obligation (*BlockReader).SkipNext#post:eof_clean (property C02):
// a CARv1 whose stream ends right after a section length prefix.

import (
	"bytes"
	"io"
	"os"
	"strconv"
	"testing"

	"github.com/multiformats/go-varint"
)

func TestReplaySkipNextEOF(t *testing.T) {
	l := uint64(40)
	if s := os.Getenv("GCV_r_util_LdReadSize_0"); s != "" {
		if v, err := strconv.ParseUint(s, 10, 64); err == nil && v > 0 && v < 1<<20 {
			l = v
		}
	}
	// minimal CARv1 header {version:1, roots:[]}... use the library's own pragma-like header with version 1
	hdr := []byte{0x11, 0xa2, 0x65, 'r', 'o', 'o', 't', 's', 0x80, 0x67, 'v', 'e', 'r', 's', 'i', 'o', 'n', 0x01}
	stream := append(append([]byte{}, hdr...), varint.ToUvarint(l)...)
	for _, seekable := range []bool{true, false} {
		var r io.Reader = bytes.NewReader(stream)
		if !seekable {
			r = io.MultiReader(bytes.NewReader(stream))
		}
		br, err := NewBlockReader(r)
		if err != nil {
			t.Fatalf("setup: %v", err)
		}
		_, err = br.SkipNext()
		if err == io.EOF {
			t.Fatalf("REPLAY-VIOLATION: SkipNext returned io.EOF (clean end) although the stream ends after the length prefix of a section of declared length %d (seekable=%v)", l, seekable)
		}
	}
}
