package util

// Replay driver for obligation root util.LdRead#post:eof_clean (property C02).

import (
	"bufio"
	"bytes"
	"encoding/binary"
	"io"
	"testing"
)

func TestReplayRootLdReadEOF(t *testing.T) {
	buf := make([]byte, 10)
	n := binary.PutUvarint(buf, 5)
	stream := buf[:n]
	_, err := LdRead(bufio.NewReader(bytes.NewReader(stream)))
	if err == io.EOF {
		t.Fatalf("REPLAY-VIOLATION: root util.LdRead returned io.EOF (clean end) after consuming the length prefix of a 5-byte section")
	}
}
