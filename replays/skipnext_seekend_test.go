package car

// Replay driver for obligation (*offsetReadSeeker).Seek#panic[0]:unreachable (property C09): SkipNext over the
// payload reader of a CARv1 (an offsetReadSeeker) asks for io.SeekEnd, which that reader answered with a panic.

import (
	"os"
	"testing"
)

func TestReplaySkipNextSeekEndPanic(t *testing.T) {
	f, err := os.Open("testdata/sample-v1.car")
	if err != nil {
		t.Skip(err)
	}
	defer f.Close()
	r, err := NewReader(f)
	if err != nil {
		t.Fatal(err)
	}
	dr, err := r.DataReader()
	if err != nil {
		t.Fatal(err)
	}
	br, err := NewBlockReader(dr)
	if err != nil {
		t.Fatal(err)
	}
	defer func() {
		if p := recover(); p != nil {
			t.Fatalf("REPLAY-VIOLATION: BlockReader.SkipNext over Reader.DataReader() of a CARv1 panics: %v", p)
		}
	}()
	br.SkipNext()
}
