package store

// Replay driver for obligation store.ShouldPut#post:dedup_by_multihash (property C04): a block is skipped
// only when the same multihash is already stored.  The model has byDg true and byMh false: a stored block and
// a candidate whose multihashes differ (different hash-function code) but share the digest bytes.

import (
	"testing"

	"github.com/ipfs/go-cid"
	"github.com/ipld/go-car/v2/index"
	"github.com/multiformats/go-multihash"
)

func TestReplayShouldPutDigestOnly(t *testing.T) {
	idx := index.NewInsertionIndex()
	mh1, err := multihash.Sum([]byte("hello"), multihash.SHA2_256, -1)
	if err != nil {
		t.Fatal(err)
	}
	idx.InsertNoReplace(cid.NewCidV1(cid.Raw, mh1), 0)
	d, _ := multihash.Decode(mh1)
	mh2, err := multihash.Encode(d.Digest, multihash.IDENTITY)
	if err != nil {
		t.Fatal(err)
	}
	c2 := cid.NewCidV1(cid.Raw, mh2)
	has, _ := idx.HasMultihash(c2.Hash())
	should, err := ShouldPut(idx, c2, 2048, true, false, false)
	if err == nil && !should && !has {
		t.Fatalf("REPLAY-VIOLATION: ShouldPut skips %s although no block with that multihash is stored (only the digest bytes coincide with a stored sha2-256 block); the Put is acknowledged but the block is absent", c2)
	}
}
