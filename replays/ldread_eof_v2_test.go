package util

// Replay driver for obligation util.LdRead#post:eof_clean (property C02).
// The model fixes the section length l (result of LdReadSize); the stream is
// varint(l) and then ends.  The real LdRead must not answer io.EOF (a clean end)
// after consuming the length prefix.

import (
	"bytes"
	"io"
	"os"
	"strconv"
	"testing"

	"github.com/multiformats/go-varint"
)

func TestReplayLdReadEOF(t *testing.T) {
	l := uint64(5)
	if s := os.Getenv("GCV_r_util_LdReadSize_0"); s != "" {
		if v, err := strconv.ParseUint(s, 10, 64); err == nil && v > 0 && v < 1<<20 {
			l = v
		}
	}
	stream := varint.ToUvarint(l)
	r := bytes.NewReader(stream)
	_, err := LdRead(r, false, 1<<21)
	consumed := len(stream) - r.Len()
	if err == io.EOF && consumed != 0 {
		t.Fatalf("REPLAY-VIOLATION: LdRead returned io.EOF (clean end) after consuming %d byte(s) of a section of declared length %d", consumed, l)
	}
}
