package blockstore

// Replay driver for store.Resume#loop[0].step:section_on_file (C06): a crash in the middle of a Put leaves the last
// section cut short.  The driver writes two blocks, cuts the file inside the data of the second one (any cut point
// GCV_CUT bytes before the end of the file, 1 <= cut < len(data2)), reopens the file for read-write and asks for
// the second block: the property allows an error at reopen, or a store that does not claim the block; it does
// not allow a store that has it and hands out bytes that were never put.

import (
	"bytes"
	"context"
	"fmt"
	"os"
	"path/filepath"
	"strconv"
	"testing"

	blocks "github.com/ipfs/go-block-format"
	"github.com/ipfs/go-cid"
	"github.com/multiformats/go-multihash"
)

func replayBlockCut(i int) blocks.Block {
	data := []byte(fmt.Sprintf("replay block %d", i))
	h, _ := multihash.Sum(data, multihash.SHA2_256, -1)
	b, _ := blocks.NewBlockWithCid(data, cid.NewCidV1(cid.Raw, h))
	return b
}

func TestReplayResumeCutBlock(t *testing.T) {
	ctx := context.Background()
	path := filepath.Join(t.TempDir(), "cut.car")
	b1, b2 := replayBlockCut(1), replayBlockCut(2)
	roots := []cid.Cid{b1.Cid()}
	bs, err := OpenReadWrite(path, roots)
	if err != nil {
		t.Fatal(err)
	}
	if err := bs.Put(ctx, b1); err != nil {
		t.Fatal(err)
	}
	if err := bs.Put(ctx, b2); err != nil {
		t.Fatal(err)
	}
	bs.Discard() // no finalize: the session is interrupted
	cut := int64(3)
	if v, err := strconv.ParseInt(os.Getenv("GCV_CUT"), 10, 64); err == nil && v >= 1 && v < int64(len(b2.RawData())) {
		cut = v
	}
	st, err := os.Stat(path)
	if err != nil {
		t.Fatal(err)
	}
	if err := os.Truncate(path, st.Size()-cut); err != nil { // the crash: the tail of the last write never reached the disk
		t.Fatal(err)
	}
	bs2, err := OpenReadWrite(path, roots)
	if err != nil {
		t.Logf("replay: reopening fails with %v (allowed)", err)
		return
	}
	defer bs2.Discard()
	has, err := bs2.Has(ctx, b2.Cid())
	if err != nil || !has {
		t.Logf("replay: the cut block is not claimed (has=%v err=%v) (allowed)", has, err)
		return
	}
	got, err := bs2.Get(ctx, b2.Cid())
	if err != nil {
		t.Fatalf("REPLAY-VIOLATION: after resuming a file cut %d bytes into the last block, Has(block2) is true but Get fails: %v", cut, err)
	}
	if !bytes.Equal(got.RawData(), b2.RawData()) {
		t.Fatalf("REPLAY-VIOLATION: after resuming a file cut %d bytes into the last block, Get(block2) returns %d bytes %q, the block put was %d bytes %q", cut, len(got.RawData()), got.RawData(), len(b2.RawData()), b2.RawData())
	}
}
