package blockstore

// Replay driver for obligation (*ReadOnly).GetSize#post:identity_rule (properties C04 / C07): with
// StoreIdentityCIDs enabled identity CIDs are ordinary keys, so GetSize must agree with Has / Get for an
// identity CID that no section carries.

import (
	"context"
	"path/filepath"
	"testing"

	blocks "github.com/ipfs/go-block-format"
	"github.com/ipfs/go-cid"
	carv2 "github.com/ipld/go-car/v2"
	"github.com/multiformats/go-multihash"
)

func TestReplayGetSizeIdentity(t *testing.T) {
	ctx := context.Background()
	path := filepath.Join(t.TempDir(), "x.car")
	mh, _ := multihash.Sum([]byte("payload"), multihash.SHA2_256, -1)
	c := cid.NewCidV1(cid.Raw, mh)
	rw, err := OpenReadWrite(path, []cid.Cid{c}, carv2.StoreIdentityCIDs(true))
	if err != nil {
		t.Fatal(err)
	}
	blk, _ := blocks.NewBlockWithCid([]byte("payload"), c)
	if err := rw.Put(ctx, blk); err != nil {
		t.Fatal(err)
	}
	if err := rw.Finalize(); err != nil {
		t.Fatal(err)
	}
	ro, err := OpenReadOnly(path, carv2.StoreIdentityCIDs(true))
	if err != nil {
		t.Fatal(err)
	}
	defer ro.Close()
	idmh, _ := multihash.Sum([]byte("never stored"), multihash.IDENTITY, -1)
	idc := cid.NewCidV1(cid.Raw, idmh)
	has, err := ro.Has(ctx, idc)
	if err != nil {
		t.Fatal(err)
	}
	_, gerr := ro.Get(ctx, idc)
	size, serr := ro.GetSize(ctx, idc)
	if !has && gerr != nil && serr == nil {
		t.Fatalf("REPLAY-VIOLATION: StoreIdentityCIDs on, identity CID not stored: Has=false, Get=%v, but GetSize=%d with nil error", gerr, size)
	}
}
