package storage

// Replay driver for obligation (*StorageCar).Put#post:ri_on_return (property C16): after a Put that failed in
// the middle of a section, the writer position must again be the end of the last indexed section, so that a later
// successful Put leaves a parsable payload.

import (
	"context"
	"errors"
	"io"
	"os"
	"path/filepath"
	"testing"

	"github.com/ipfs/go-cid"
	carv2 "github.com/ipld/go-car/v2"
	"github.com/multiformats/go-multihash"
)

func replayCidFW(t *testing.T, data []byte) cid.Cid {
	mh, err := multihash.Sum(data, multihash.SHA2_256, -1)
	if err != nil {
		t.Fatal(err)
	}
	return cid.NewCidV1(cid.Raw, mh)
}

type flakyFile struct {
	*os.File
	failAt int // fail the failAt-th WriteAt from now (1-based); 0 = never
	seen   int
}

func (f *flakyFile) WriteAt(p []byte, off int64) (int, error) {
	f.seen++
	if f.failAt != 0 && f.seen == f.failAt {
		return 0, errors.New("injected transient write error")
	}
	return f.File.WriteAt(p, off)
}

func TestReplayPutAfterFailedWrite(t *testing.T) {
	dir := t.TempDir()
	f, err := os.Create(filepath.Join(dir, "x.car"))
	if err != nil {
		t.Fatal(err)
	}
	defer f.Close()
	d1, d2, d3 := []byte("one"), []byte("two-two"), []byte("three")
	c1, c2, c3 := replayCidFW(t, d1), replayCidFW(t, d2), replayCidFW(t, d3)
	ff := &flakyFile{File: f}
	sc, err := NewReadableWritable(ff, []cid.Cid{c1})
	if err != nil {
		t.Fatal(err)
	}
	ctx := context.Background()
	if err := sc.Put(ctx, c1.KeyString(), d1); err != nil {
		t.Fatal(err)
	}
	ff.seen, ff.failAt = 0, 2 // the section's varint is written, the CID write fails
	if err := sc.Put(ctx, c2.KeyString(), d2); err == nil {
		t.Fatal("setup: injected failure did not surface")
	}
	ff.failAt = 0
	if err := sc.Put(ctx, c3.KeyString(), d3); err != nil {
		t.Fatal(err)
	}
	if err := sc.Finalize(); err != nil {
		t.Fatal(err)
	}
	if _, err := f.Seek(0, io.SeekStart); err != nil {
		t.Fatal(err)
	}
	br, err := carv2.NewBlockReader(f)
	if err != nil {
		t.Fatal(err)
	}
	var got []cid.Cid
	for {
		blk, err := br.Next()
		if err == io.EOF {
			break
		}
		if err != nil {
			t.Fatalf("REPLAY-VIOLATION: after a failed Put followed by a successful one the finalized archive does not parse: %v (blocks read so far: %v)", err, got)
		}
		got = append(got, blk.Cid())
	}
	if len(got) != 2 || !got[0].Equals(c1) || !got[1].Equals(c3) {
		t.Fatalf("REPLAY-VIOLATION: archive holds %v, want exactly the acknowledged blocks [%v %v]", got, c1, c3)
	}
}
