package index

// Replay driver for obligation (*singleWidthIndex).Unmarshal#alloc[0] (property C09): the bucket length field of a
// serialized index is attacker-controlled and was used as an allocation size before any byte was read.

import (
	"bytes"
	"encoding/binary"
	"testing"

	"github.com/multiformats/go-multicodec"
	"github.com/multiformats/go-varint"
)

func TestReplayUnmarshalHugeLength(t *testing.T) {
	var buf bytes.Buffer
	buf.Write(varint.ToUvarint(uint64(multicodec.CarIndexSorted)))
	binary.Write(&buf, binary.LittleEndian, int32(1))       // one bucket
	binary.Write(&buf, binary.LittleEndian, uint32(40))     // width
	binary.Write(&buf, binary.LittleEndian, uint64(1)<<62)  // declared data length: 4 EiB, nothing follows
	defer func() {
		if r := recover(); r != nil {
			t.Fatalf("REPLAY-VIOLATION: index.ReadFrom panics on an 18-byte input: %v", r)
		}
	}()
	_, err := ReadFrom(bytes.NewReader(buf.Bytes()))
	if err == nil {
		t.Fatalf("REPLAY-VIOLATION: truncated index accepted")
	}
}
