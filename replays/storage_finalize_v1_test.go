package storage

// Replay driver for obligation (*StorageCar).Finalize#post:closed (property C04): after Finalize the store is
// closed in every writable configuration, CARv1 mode included.

import (
	"bytes"
	"context"
	"testing"

	"github.com/ipfs/go-cid"
	carv2 "github.com/ipld/go-car/v2"
	"github.com/multiformats/go-multihash"
)

func replayCid(t *testing.T, data []byte) cid.Cid {
	mh, err := multihash.Sum(data, multihash.SHA2_256, -1)
	if err != nil {
		t.Fatal(err)
	}
	return cid.NewCidV1(cid.Raw, mh)
}

func TestReplayFinalizeV1StillWritable(t *testing.T) {
	var buf bytes.Buffer
	d1, d2 := []byte("one"), []byte("two")
	c1, c2 := replayCid(t, d1), replayCid(t, d2)
	w, err := NewWritable(&buf, []cid.Cid{c1}, carv2.WriteAsCarV1(true))
	if err != nil {
		t.Fatal(err)
	}
	if err := w.Put(context.Background(), c1.KeyString(), d1); err != nil {
		t.Fatal(err)
	}
	if err := w.Finalize(); err != nil {
		t.Fatal(err)
	}
	n := buf.Len()
	err = w.Put(context.Background(), c2.KeyString(), d2)
	if err == nil || buf.Len() != n {
		t.Fatalf("REPLAY-VIOLATION: after Finalize (CARv1 mode) Put returned %v and the output grew from %d to %d bytes", err, n, buf.Len())
	}
}
