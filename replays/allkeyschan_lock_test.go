package blockstore

// Replay driver for (*ReadWrite).AllKeysChan#call[RWMutex.Unlock#0].pre:held_write (C08): the write lock is
// released by the deferred Unlock when AllKeysChan returns, while the goroutine it spawned is still walking the
// insertion index.  The driver receives the first key (so the walk is in progress, blocked on the unbuffered
// channel), then shows that the lock is free and that a Put — which mutates the index being walked — is admitted.

import (
	"context"
	"fmt"
	"path/filepath"
	"testing"
	"time"

	blocks "github.com/ipfs/go-block-format"
	"github.com/ipfs/go-cid"
	"github.com/multiformats/go-multihash"
)

func replayBlock(i int) blocks.Block {
	data := []byte(fmt.Sprintf("replay block %d", i))
	h, _ := multihash.Sum(data, multihash.SHA2_256, -1)
	b, _ := blocks.NewBlockWithCid(data, cid.NewCidV1(cid.Raw, h))
	return b
}

func TestReplayAllKeysChanLock(t *testing.T) {
	ctx := context.Background()
	bs, err := OpenReadWrite(filepath.Join(t.TempDir(), "rw.car"), []cid.Cid{replayBlock(0).Cid()})
	if err != nil {
		t.Fatal(err)
	}
	for i := 0; i < 8; i++ {
		if err := bs.Put(ctx, replayBlock(i)); err != nil {
			t.Fatal(err)
		}
	}
	ch, err := bs.AllKeysChan(ctx)
	if err != nil {
		t.Fatal(err)
	}
	<-ch // the walk has started and is now blocked sending the second key
	time.Sleep(10 * time.Millisecond)
	if bs.ronly.mu.TryLock() {
		bs.ronly.mu.Unlock()
		t.Errorf("REPLAY-VIOLATION: the index walk of AllKeysChan is in progress but ronly.mu is not held by anyone")
	}
	done := make(chan error, 1)
	go func() { done <- bs.Put(ctx, replayBlock(100)) }()
	select {
	case err := <-done:
		t.Errorf("REPLAY-VIOLATION: Put (err=%v) mutated the insertion index while AllKeysChan was walking it", err)
	case <-time.After(500 * time.Millisecond):
		t.Log("replay: Put is blocked until the walk finishes (lock held by the walker)")
		defer func() { <-done }()
	}
	for range ch {
	}
}
