package index

// Replay driver for obligation (*InsertionIndex).Unmarshal#call[newRecordDigest#0].pre:valid_cid (property C09):
// a serialized insertion index whose record carries an undefined CID made Unmarshal panic.

import (
	"bytes"
	"encoding/binary"
	"testing"

	cbor "github.com/whyrusleeping/cbor/go"
)

func TestReplayInsertionUnmarshalPanics(t *testing.T) {
	var buf bytes.Buffer
	binary.Write(&buf, binary.LittleEndian, int64(1))
	if err := cbor.Encode(&buf, Record{}); err != nil {
		t.Fatal(err)
	}
	defer func() {
		if p := recover(); p != nil {
			t.Fatalf("REPLAY-VIOLATION: InsertionIndex.Unmarshal panics on a %d-byte input: %v", buf.Len(), p)
		}
	}()
	NewInsertionIndex().Unmarshal(bytes.NewReader(buf.Bytes()))
}
